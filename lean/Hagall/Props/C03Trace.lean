/-
  C03, the trace form (noninterference) at the level of handled requests: what the members of a session are sent is the
  same whether or not the other connections' requests happen.

  A history here is a list of requests as the handlers consume them (`Server.handleReq`, followed by the departure
  when the request ends the connection).  `proj` keeps the requests that concern session `xid`: those of its current
  members and the requests to join it by id.  `obs` is what the members of `xid` (after each step) are sent.  The
  theorem: `obs` of the whole history from `s1` equals `obs` of the projected history from any `s2` that agrees with
  `s1` on the session - in particular from `s1` itself.

  Hypotheses (`Admissible`): no receipts (the receipt queue is the one resource all connections share by design, C19);
  no signed latency requests, from servers in which no measurement runs (`NoLat`, kept by every other request): the
  answer to a measurement given up when its participant switches sessions (F37b) reaches a connection that is by then a
  member of the session it joins, and depends on what that connection did in the session it left;
  a member of the session does not ask to join ANOTHER session by id (whether that session exists is, legitimately,
  visible to the members it would leave - it may leave by disconnecting or by asking for a session of its own); one member, the anchor, only listens (so the session does not end; what
  happens around the end of a session and the reuse of its id is C07 / C10).  The scheduler in front of the handler
  (per-connection queues, frames) is state of the connection itself and is not part of this statement.
-/
import Hagall.Props.C03
import Hagall.Props.C07
namespace Hagall.Props.C03Trace
open Hagall

structure RE where
  c : Nat
  r : Req
  hint : Nat
deriving Repr, Inhabited

/-- the handler of connection `e.c` handles request `e.r`; a request that ends the connection is followed by its departure -/
def stepReq (cfg : Cfg) (srv : Server) (e : RE) : Server × List Delivery :=
  match (srv.handleReq cfg e.c e.r e.hint).2.2 with
  | .connError =>
    (((srv.handleReq cfg e.c e.r e.hint).1.disconnect cfg e.c).1,
     (srv.handleReq cfg e.c e.r e.hint).2.1 ++ ((srv.handleReq cfg e.c e.r e.hint).1.disconnect cfg e.c).2)
  | _ => ((srv.handleReq cfg e.c e.r e.hint).1, (srv.handleReq cfg e.c e.r e.hint).2.1)

/-! ### no signed latency measurement anywhere (kept by every request that does not start one) -/

def NoLat (srv : Server) : Prop := ∀ s ∈ srv.sessions, s.lats = []

theorem NoLat.setSession {srv : Server} (h : NoLat srv) {s' : Session} (hs : s'.lats = []) : NoLat (srv.setSession s') := by
  intro x hx
  simp only [Server.setSession, List.mem_map] at hx
  obtain ⟨y, hy, rfl⟩ := hx
  split
  · exact hs
  · exact h y hy

theorem NoLat.leave {cfg : Cfg} {srv : Server} (h : NoLat srv) {s : Session} (hs : s ∈ srv.sessions) (p : Part) :
    NoLat (srv.leave cfg s p).1 := by
  unfold Server.leave
  have hl := Session.leave_lats_nil cfg s p.pid (h s hs)
  rcases hle : s.leave cfg p.pid with ⟨s', ds⟩
  rw [hle] at hl
  simp only []
  split
  · intro x hx
    exact h x (List.mem_filter.mp hx).1
  · exact NoLat.setSession h hl

theorem NoLat.joinFresh {cfg : Cfg} {srv : Server} (h : NoLat srv) (c rid ots : Nat) (t : JoinTarget) (hint : Nat) :
    NoLat (srv.joinFresh cfg c rid ots t hint).1 := by
  unfold Server.joinFresh
  cases t with
  | bogus => exact h
  | id n =>
    simp only []
    cases hf : srv.findSession n with
    | none => exact h
    | some s =>
      simp only []
      apply NoLat.setSession h
      simp only [Session.addPart]
      exact h s (Server.findSession_some hf).1
  | new =>
    simp only []
    intro x hx
    simp only [List.mem_append, List.mem_singleton] at hx
    rcases hx with hx | rfl
    · exact h x hx
    · simp [Session.addPart]

theorem NoLat.disconnect {cfg : Cfg} {srv : Server} (h : NoLat srv) (c : Nat) : NoLat (srv.disconnect cfg c).1 := by
  unfold Server.disconnect
  cases hl : srv.locate c with
  | none => exact h
  | some sp =>
    obtain ⟨s, p⟩ := sp
    simp only []
    exact NoLat.leave h (Server.locate_some hl).1 p

theorem NoLat.handleReq {cfg : Cfg} {srv : Server} (h : NoLat srv) (c : Nat) (r : Req) (hint : Nat) (hr : r.isLatency = false) :
    NoLat (srv.handleReq cfg c r hint).1 := by
  have other : ∀ (r : Req), r.isLatency = false →
      NoLat (match srv.locate c with
        | none => (srv, (notJoined c r).1, (notJoined c r).2)
        | some (s, p) => ((srv.setSession (s.handle cfg p r hint).1), (s.handle cfg p r hint).2.1, (s.handle cfg p r hint).2.2)).1 := by
    intro r hr
    cases hl : srv.locate c with
    | none => exact h
    | some sp =>
      obtain ⟨s, p⟩ := sp
      exact NoLat.setSession h (Session.handle_lats_nil cfg p r hint s (h s (Server.locate_some hl).1) hr)
  cases r <;> simp only [Server.handleReq] <;> first
    | exact h
    | exact other _ hr
    | skip
  case join rid ots t =>
    unfold Server.join
    cases hl : srv.locate c with
    | none => exact NoLat.joinFresh h c rid ots t hint
    | some sp =>
      obtain ⟨s, p⟩ := sp
      simp only []
      split
      · exact h
      · split
        · exact h
        · exact NoLat.joinFresh (NoLat.leave h (Server.locate_some hl).1 p) c rid ots t hint
  case receipt rid a b d =>
    unfold Server.handleReceipt
    split
    · exact h
    · split
      · exact h
      · exact h

theorem NoLat.step {cfg : Cfg} {srv : Server} (h : NoLat srv) (e : RE) (hr : e.r.isLatency = false) : NoLat (stepReq cfg srv e).1 := by
  unfold stepReq
  split
  · exact NoLat.disconnect (NoLat.handleReq h e.c e.r e.hint hr) e.c
  · exact NoLat.handleReq h e.c e.r e.hint hr

def members (srv : Server) (xid : Nat) : List Nat :=
  match srv.findSession xid with
  | some x => x.parts.map (·.conn)
  | none => []

/-- what the members of session `xid` (as it is after the step) are sent -/
def seen (srv' : Server) (xid : Nat) (ds : List Delivery) : List Delivery :=
  ds.filter fun d => (members srv' xid).contains d.1

def isJoinTo (xid : Nat) : Req → Bool
  | .join _ _ (.id n) => n == xid
  | _ => false

/-- does the request concern session `xid`: sent by a member, or asking to join it -/
def insider (srv : Server) (xid : Nat) (e : RE) : Bool :=
  (members srv xid).contains e.c || isJoinTo xid e.r

def obs (cfg : Cfg) (xid : Nat) : Server → List RE → List Delivery
  | _, [] => []
  | srv, e :: es => seen (stepReq cfg srv e).1 xid (stepReq cfg srv e).2 ++ obs cfg xid (stepReq cfg srv e).1 es

def proj (cfg : Cfg) (xid : Nat) : Server → List RE → List RE
  | _, [] => []
  | srv, e :: es =>
    if insider srv xid e then e :: proj cfg xid (stepReq cfg srv e).1 es else proj cfg xid (stepReq cfg srv e).1 es

def isReceipt : Req → Bool
  | .receipt .. => true
  | _ => false

/-- a join that names another session by its id -/
def joinsOther (xid : Nat) : Req → Bool
  | .join _ _ (.id n) => n != xid
  | _ => false

def isJoinNew : Req → Bool
  | .join _ _ .new => true
  | _ => false

/-- the histories the theorem speaks about (relative to the run from `srv`) -/
def Admissible (cfg : Cfg) (xid a : Nat) : Server → List RE → Prop
  | _, [] => True
  | srv, e :: es =>
    isReceipt e.r = false ∧ e.r.isLatency = false ∧ e.c ≠ a ∧
    ((members srv xid).contains e.c = true → joinsOther xid e.r = false) ∧
    Admissible cfg xid a (stepReq cfg srv e).1 es

/-- the two servers are well formed and hold the same session `xid`, in which the anchor `a` sits -/
structure Agree (xid a : Nat) (s1 s2 : Server) : Prop where
  wf1 : s1.WF
  wf2 : s2.WF
  same : ∃ x, x ∈ s1.sessions ∧ x ∈ s2.sessions ∧ x.id = xid ∧ a ∈ x.parts.map (·.conn)

theorem members_of_mem {srv : Server} (h : srv.WF) {x : Session} (hx : x ∈ srv.sessions) :
    members srv x.id = x.parts.map (·.conn) := by
  unfold members
  rw [Props.C07.findSession_of_mem h.ids_nodup hx]

theorem stepReq_WF (cfg : Cfg) {srv : Server} (h : srv.WF) (e : RE) : (stepReq cfg srv e).1.WF := by
  unfold stepReq
  split
  · exact Server.disconnect_WF cfg (Server.handleReq_WF cfg h e.c e.r e.hint) e.c
  · exact Server.handleReq_WF cfg h e.c e.r e.hint

/-- a request that does not concern the session leaves it as it is and sends its members nothing -/
theorem outsider_step (cfg : Cfg) {srv : Server} (h : srv.WF) {x : Session} (hx : x ∈ srv.sessions) (e : RE)
    (hin : insider srv x.id e = false) :
    x ∈ (stepReq cfg srv e).1.sessions ∧ seen (stepReq cfg srv e).1 x.id (stepReq cfg srv e).2 = [] := by
  have hmem : e.c ∉ x.parts.map (·.conn) := by
    intro hc
    have : (members srv x.id).contains e.c = true := by rw [members_of_mem h hx]; simpa using hc
    unfold insider at hin
    rw [this] at hin
    simp at hin
  have hj : ∀ rid ots, e.r ≠ .join rid ots (.id x.id) := by
    intro rid ots he
    unfold insider at hin
    rw [he] at hin
    simp [isJoinTo] at hin
  have h1 := C03_request_frame cfg h e.c e.r e.hint hx (not_concerns_of_outsider h hx hmem hj)
  have hw1 := Server.handleReq_WF cfg h e.c e.r e.hint
  have key : ∀ (srv' : Server) (ds : List Delivery), srv'.WF → Untouched x srv' ds → x ∈ srv'.sessions ∧ seen srv' x.id ds = [] := by
    intro srv' ds hw hu
    refine ⟨hu.1, ?_⟩
    unfold seen
    rw [members_of_mem hw hu.1]
    apply List.filter_eq_nil_iff.mpr
    intro d hd
    have := hu.2 d hd
    simpa using this
  unfold stepReq
  split
  · have h2 := disconnect_frame cfg hw1 e.c h1.1 hmem
    apply key _ _ (Server.disconnect_WF cfg hw1 e.c)
    refine ⟨h2.1, ?_⟩
    intro d hd
    rcases List.mem_append.mp hd with hd | hd
    · exact h1.2 d hd
    · exact h2.2 d hd
  · exact key _ _ hw1 h1


theorem inj_of_nodup_map {α β : Type} (f : α → β) {l : List α} (hn : (l.map f).Nodup) {a b : α} (ha : a ∈ l) (hb : b ∈ l)
    (h : f a = f b) : a = b := by
  induction l with
  | nil => cases ha
  | cons x xs ih =>
    simp only [List.map_cons, List.nodup_cons, List.mem_map, not_exists, not_and] at hn
    rcases List.mem_cons.mp ha with rfl | ha' <;> rcases List.mem_cons.mp hb with rfl | hb'
    · rfl
    · exact absurd h.symm (hn.1 b hb')
    · exact absurd h (hn.1 a ha')
    · exact ih hn.2 ha' hb'

/-- a participant's connection is located in its session, as that participant -/
theorem locate_member {srv : Server} (h : srv.WF) {x : Session} (hx : x ∈ srv.sessions) {p : Part} (hp : p ∈ x.parts) :
    srv.locate p.conn = some (x, p) := by
  cases hl : srv.locate p.conn with
  | none => exact absurd rfl (Server.locate_none hl x hx p hp)
  | some sp =>
    obtain ⟨s', p'⟩ := sp
    obtain ⟨hs', hp', hc'⟩ := Server.locate_some hl
    have hid : s'.id = x.id := h.conn_unique s' hs' x hx p' hp' p hp hc'
    have : s' = x := id_inj h.ids_nodup hs' hx hid
    subst this
    have : p' = p := inj_of_nodup_map (·.conn) (h.members s' hx).conns_nodup hp' hp hc'
    subst this
    rfl

theorem mem_setSession_self {srv : Server} {x x' : Session} (hx : x ∈ srv.sessions) (hid : x'.id = x.id) :
    x' ∈ (srv.setSession x').sessions := by
  simp only [Server.setSession, List.mem_map]
  exact ⟨x, hx, by simp [hid]⟩


/-- what a member's request (not a join, a receipt or a ping) does to its session and whom it reaches: a function of the
    session record, the participant and the request alone -/
def memberResult (cfg : Cfg) (x : Session) (p : Part) (r : Req) (hint : Nat) : Session × List Delivery :=
  match (x.handle cfg p r hint).2.2 with
  | .connError =>
    (((x.handle cfg p r hint).1.leave cfg p.pid).1, (x.handle cfg p r hint).2.1 ++ ((x.handle cfg p r hint).1.leave cfg p.pid).2)
  | _ => ((x.handle cfg p r hint).1, (x.handle cfg p r hint).2.1)

/-- the anchor's part survives the departure of somebody else -/
theorem anchor_stays {x : Session} (hm : x.MembersOK) {p : Part} (hp : p ∈ x.parts) {a : Nat}
    (ha : a ∈ x.parts.map (·.conn)) (hne : a ≠ p.conn) (cfg : Cfg) :
    a ∈ (x.leave cfg p.pid).1.parts.map (·.conn) ∧ (x.leave cfg p.pid).1.parts ≠ [] := by
  obtain ⟨q, hq, hqa⟩ := List.mem_map.mp ha
  have hqp : q.pid ≠ p.pid := by
    intro e
    have : q = p := inj_of_nodup_map (·.pid) hm.pids_nodup hq hp e
    subst this
    exact hne hqa.symm
  have hmem : q ∈ (x.leave cfg p.pid).1.parts := by
    rw [(Session.leave_frame cfg x p.pid).2.2.2]
    exact List.mem_filter.mpr ⟨hq, by simpa using hqp⟩
  exact ⟨List.mem_map.mpr ⟨q, hmem, hqa⟩, List.ne_nil_of_mem hmem⟩

theorem member_request (cfg : Cfg) {srv : Server} (h : srv.WF) {x : Session} (hx : x ∈ srv.sessions) {p : Part}
    (hp : p ∈ x.parts) {a : Nat} (ha : a ∈ x.parts.map (·.conn)) (hne : a ≠ p.conn) (r : Req) (hint : Nat)
    (hr : ∀ rid ots t, r ≠ .join rid ots t) (hrc : ∀ rid a b d, r ≠ .receipt rid a b d) (hpg : ∀ rid, r ≠ .ping rid) :
    (memberResult cfg x p r hint).1 ∈ (stepReq cfg srv ⟨p.conn, r, hint⟩).1.sessions ∧
    (stepReq cfg srv ⟨p.conn, r, hint⟩).2 = (memberResult cfg x p r hint).2 ∧
    (memberResult cfg x p r hint).1.id = x.id ∧ a ∈ (memberResult cfg x p r hint).1.parts.map (·.conn) := by
  have hl := locate_member h hx hp
  obtain ⟨_, h2, h3, _⟩ := C03_local cfg srv srv p.conn x p r hint hl hl hr hrc hpg
  have hsm := Session.handle_sameMembers cfg x p r hint
  have hw' := Server.handleReq_WF cfg h p.conn r hint
  have hx' : (x.handle cfg p r hint).1 ∈ (srv.handleReq cfg p.conn r hint).1.sessions := by
    rw [h3]; exact mem_setSession_self hx hsm.1
  have hp' : p ∈ (x.handle cfg p r hint).1.parts := by rw [hsm.2.2.2]; exact hp
  have ha' : a ∈ (x.handle cfg p r hint).1.parts.map (·.conn) := by rw [hsm.2.2.2]; exact ha
  have ho : (srv.handleReq cfg p.conn r hint).2.2 = (x.handle cfg p r hint).2.2 := by rw [h2]
  have hd : (srv.handleReq cfg p.conn r hint).2.1 = (x.handle cfg p r hint).2.1 := by rw [h2]
  unfold stepReq memberResult
  simp only [ho, hd]
  cases hout : (x.handle cfg p r hint).2.2 with
  | connError =>
    simp only
    have hl' := locate_member hw' hx' hp'
    have hst := anchor_stays (hw'.members _ hx') hp' ha' hne cfg
    have hleave : (srv.handleReq cfg p.conn r hint).1.leave cfg (x.handle cfg p r hint).1 p =
        ((srv.handleReq cfg p.conn r hint).1.setSession ((x.handle cfg p r hint).1.leave cfg p.pid).1,
         ((x.handle cfg p r hint).1.leave cfg p.pid).2) := by
      unfold Server.leave
      have : (((x.handle cfg p r hint).1.leave cfg p.pid).1.parts.isEmpty) = false := by
        simpa using hst.2
      simp [this]
    refine ⟨?_, ?_, ?_, hst.1⟩
    · unfold Server.disconnect
      rw [hl']
      simp only [hleave]
      exact mem_setSession_self hx' (Session.leave_frame cfg _ p.pid).1
    · unfold Server.disconnect
      rw [hl']
      simp only [hleave]
    · rw [(Session.leave_frame cfg _ p.pid).1]; exact hsm.1
  | ok => exact ⟨hx', rfl, hsm.1, ha'⟩
  | panic site => exact ⟨hx', rfl, hsm.1, ha'⟩


/-- a departure sends the leaver itself nothing -/
theorem leave_not_to_leaver (cfg : Cfg) {y : Session} (hm : y.MembersOK) {q : Part} (hq : q ∈ y.parts) :
    ∀ d ∈ (y.leave cfg q.pid).2, d.1 ≠ q.conn := by
  intro d hd
  rw [Props.C06.leave_deliveries] at hd
  have other : ∀ r ∈ y.parts, r.pid ≠ q.pid → r.conn ≠ q.conn := by
    intro r hr hne hc
    exact hne (by rw [inj_of_nodup_map (·.conn) hm.conns_nodup hr hq hc])
  rcases List.mem_append.mp hd with hd | hd
  · obtain ⟨eid, _, hd⟩ := List.mem_flatMap.mp hd
    unfold Hagall.gate at hd
    split at hd
    · cases hd
    · obtain ⟨_, r, hr, hne, hdr⟩ := Session.mem_bcast hd
      rw [hdr]; exact other r hr hne
  · unfold Hagall.gate at hd
    split at hd
    · cases hd
    · obtain ⟨r, hr, rfl⟩ := List.mem_map.mp hd
      have := List.mem_filter.mp hr
      exact other r this.1 (by simpa using this.2)

theorem filter_all {α : Type} (p : α → Bool) (l : List α) (h : ∀ a ∈ l, p a = true) : l.filter p = l :=
  List.filter_eq_self.mpr h

theorem filter_none {α : Type} (p : α → Bool) (l : List α) (h : ∀ a ∈ l, p a = false) : l.filter p = [] := by
  apply List.filter_eq_nil_iff.mpr
  intro a ha; rw [h a ha]; simp

/-- a connection that is not in the session joins it by its id, wherever it comes from: the session gains it as a new
    participant, and what the members (the newcomer included) are sent is the join's deliveries -/
theorem join_x (cfg : Cfg) {srv : Server} (h : srv.WF) (hnl : NoLat srv) {x : Session} (hx : x ∈ srv.sessions) (c rid ots hint : Nat)
    (hc : c ∉ x.parts.map (·.conn)) :
    (x.addPart c).1 ∈ (stepReq cfg srv ⟨c, .join rid ots (.id x.id), hint⟩).1.sessions ∧
    seen (stepReq cfg srv ⟨c, .join rid ots (.id x.id), hint⟩).1 x.id (stepReq cfg srv ⟨c, .join rid ots (.id x.id), hint⟩).2 =
      joinDeliveries cfg (x.addPart c).1 (x.addPart c).2 rid ots := by
  have hxid : (x.addPart c).1.id = x.id := rfl
  -- joining from a server in which x is registered and c is in no session
  have fresh : ∀ (s0 : Server), s0.WF → x ∈ s0.sessions →
      s0.joinFresh cfg c rid ots (.id x.id) hint = (s0.setSession (x.addPart c).1, joinDeliveries cfg (x.addPart c).1 (x.addPart c).2 rid ots, .ok) := by
    intro s0 h0 hx0
    unfold Server.joinFresh
    simp only [Props.C07.findSession_of_mem h0.ids_nodup hx0]
  have seenJoin : ∀ (s' : Server), s'.WF → (x.addPart c).1 ∈ s'.sessions →
      seen s' x.id (joinDeliveries cfg (x.addPart c).1 (x.addPart c).2 rid ots) = joinDeliveries cfg (x.addPart c).1 (x.addPart c).2 rid ots := by
    intro s' hw' hx'
    unfold seen
    have := members_of_mem hw' hx'
    rw [hxid] at this
    rw [this]
    apply filter_all
    intro d hd
    have ht := joinDeliveries_tgt cfg (x.addPart c).1 (x.addPart c).2 rid ots d hd
    have hin : d.1 ∈ (x.addPart c).1.parts.map (·.conn) := by
      rcases List.mem_cons.mp ht with e | m
      · rw [e]; simp [Session.addPart]
      · exact m
    simpa using hin
  unfold stepReq
  simp only [Server.handleReq]
  unfold Server.join
  cases hl : srv.locate c with
  | none =>
    simp only [fresh srv h hx]
    have hw' : (srv.setSession (x.addPart c).1).WF := by
      have := Server.handleReq_WF cfg h c (.join rid ots (.id x.id)) hint
      simp only [Server.handleReq, Server.join, hl, fresh srv h hx] at this
      exact this
    have hx' := mem_setSession_self (srv := srv) hx hxid
    exact ⟨hx', seenJoin _ hw' hx'⟩
  | some yq =>
    obtain ⟨y, q⟩ := yq
    obtain ⟨hy, hq, hqc⟩ := Server.locate_some hl
    have hne : x.id ≠ y.id := by
      intro e
      have : x = y := id_inj h.ids_nodup hx hy e
      subst this
      exact hc (List.mem_map.mpr ⟨q, hq, hqc⟩)
    have h1 : (JoinTarget.id x.id == JoinTarget.id y.id) = false := by
      simp; exact hne
    have h2 : srv.resolves (.id x.id) = true := by
      simp [Server.resolves, Props.C07.findSession_of_mem h.ids_nodup hx]
    have hab : y.abandoned q = [] := Session.abandoned_nil (hnl y hy) q
    simp only [h1, h2, Bool.false_eq_true, if_false, Bool.not_true, hab, List.nil_append]
    have hfr := leave_frame_other cfg h hy hx hne (p := q)
    have hw1 := Server.leave_WF cfg h hy (p := q)
    simp only [fresh _ hw1 hfr.1]
    have hw' : ((srv.leave cfg y q).1.setSession (x.addPart c).1).WF := by
      have := Server.handleReq_WF cfg h c (.join rid ots (.id x.id)) hint
      simp only [Server.handleReq, Server.join, hl, h1, h2, Bool.false_eq_true, if_false, Bool.not_true, fresh _ hw1 hfr.1, hab, List.nil_append] at this
      exact this
    have hx' := mem_setSession_self (srv := (srv.leave cfg y q).1) hfr.1 hxid
    refine ⟨hx', ?_⟩
    unfold seen
    rw [List.filter_append]
    have hmem := members_of_mem hw' hx'
    rw [hxid] at hmem
    have hnone : ((srv.leave cfg y q).2.filter fun d => (members ((srv.leave cfg y q).1.setSession (x.addPart c).1) x.id).contains d.1) = [] := by
      apply filter_none
      intro d hd
      rw [hmem]
      have hnx := hfr.2 d hd
      have hnc : d.1 ≠ c := by
        have hds : (srv.leave cfg y q).2 = (y.leave cfg q.pid).2 := by
          unfold Server.leave; simp only []; split <;> rfl
        rw [hds] at hd
        rw [← hqc]; exact leave_not_to_leaver cfg (h.members y hy) hq d hd
      simp only [Session.addPart, List.map_append, List.map_cons, List.map_nil, List.contains_eq_mem, List.mem_append,
        List.mem_singleton, decide_eq_false_iff_not, not_or]
      exact ⟨hnx, hnc⟩
    rw [hnone, List.nil_append]
    exact seenJoin _ hw' hx'


/-- what any admissible request of a member does to its session and whom it reaches -/
def memberAll (cfg : Cfg) (x : Session) (p : Part) (r : Req) (hint : Nat) : Session × List Delivery :=
  match r with
  | .ping rid => (x, [(p.conn, .pingResp rid)])
  | .join rid _ t =>
    (x, (p.conn, Out.error rid (if t == .id x.id then ecAlreadyJoined else ecNotFound))
          :: (if cfg.vikja then [(p.conn, Out.vikjaState x.actions)] else [])
          ++ (if cfg.odal then [(p.conn, Out.odalState x.assets)] else []))
  | r => memberResult cfg x p r hint

theorem member_any (cfg : Cfg) {srv : Server} (h : srv.WF) {x : Session} (hx : x ∈ srv.sessions) {p : Part}
    (hp : p ∈ x.parts) {a : Nat} (ha : a ∈ x.parts.map (·.conn)) (hne : a ≠ p.conn) (r : Req) (hint : Nat)
    (hrc : isReceipt r = false) (hj : joinsOther x.id r = false) (hnew : isJoinNew r = false) :
    (memberAll cfg x p r hint).1 ∈ (stepReq cfg srv ⟨p.conn, r, hint⟩).1.sessions ∧
    (stepReq cfg srv ⟨p.conn, r, hint⟩).2 = (memberAll cfg x p r hint).2 ∧
    (memberAll cfg x p r hint).1.id = x.id ∧ a ∈ (memberAll cfg x p r hint).1.parts.map (·.conn) := by
  have hl := locate_member h hx hp
  cases r
  case ping rid => simp [memberAll, stepReq, Server.handleReq, hx, ha]
  case receipt => simp [isReceipt] at hrc
  case join rid ots t =>
    cases t with
    | new => simp [isJoinNew] at hnew
    | bogus =>
      simp [memberAll, stepReq, Server.handleReq, Server.join, hl, Server.resolves, hx, ha]
    | id n =>
      have hn : n = x.id := by simpa [joinsOther] using hj
      subst hn
      simp [memberAll, stepReq, Server.handleReq, Server.join, hl, hx, ha]
  all_goals
    exact member_request cfg h hx hp ha hne _ hint (by intro _ _ _ e; cases e) (by intro _ _ _ _ e; cases e) (by intro _ e; cases e)


/-- a member leaves by asking for a session of its own: the session loses it, and its remaining members are sent the
    departure - what the leaver and its new session get is not theirs to see -/
theorem member_leaves_by_new (cfg : Cfg) {srv : Server} (h : srv.WF) (hnl : NoLat srv) {x : Session} (hx : x ∈ srv.sessions) {p : Part}
    (hp : p ∈ x.parts) {a : Nat} (ha : a ∈ x.parts.map (·.conn)) (hne : a ≠ p.conn) (rid ots hint : Nat) :
    (x.leave cfg p.pid).1 ∈ (stepReq cfg srv ⟨p.conn, .join rid ots .new, hint⟩).1.sessions ∧
    seen (stepReq cfg srv ⟨p.conn, .join rid ots .new, hint⟩).1 x.id (stepReq cfg srv ⟨p.conn, .join rid ots .new, hint⟩).2 =
      (x.leave cfg p.pid).2.filter (fun d => ((x.leave cfg p.pid).1.parts.map (·.conn)).contains d.1) ∧
    a ∈ (x.leave cfg p.pid).1.parts.map (·.conn) := by
  have hl := locate_member h hx hp
  have hst := anchor_stays (h.members x hx) hp ha hne cfg
  have hlid : (x.leave cfg p.pid).1.id = x.id := (Session.leave_frame cfg x p.pid).1
  have hleave : srv.leave cfg x p = (srv.setSession (x.leave cfg p.pid).1, (x.leave cfg p.pid).2) := by
    unfold Server.leave
    have : ((x.leave cfg p.pid).1.parts.isEmpty) = false := by simpa using hst.2
    simp [this]
  have hne1 : (JoinTarget.new == JoinTarget.id x.id) = false := rfl
  have hw' := stepReq_WF cfg h ⟨p.conn, .join rid ots .new, hint⟩
  -- the step, unfolded
  have hstep : stepReq cfg srv ⟨p.conn, .join rid ots .new, hint⟩ =
      (((srv.setSession (x.leave cfg p.pid).1).joinFresh cfg p.conn rid ots .new hint).1,
       (x.leave cfg p.pid).2 ++ ((srv.setSession (x.leave cfg p.pid).1).joinFresh cfg p.conn rid ots .new hint).2.1) := by
    unfold stepReq
    have hab : x.abandoned p = [] := Session.abandoned_nil (hnl x hx) p
    simp only [Server.handleReq, Server.join, hl, hne1, Server.resolves, Bool.false_eq_true, if_false, Bool.not_true, hleave, hab, List.nil_append]
    simp [Server.joinFresh]
  rw [hstep] at hw' ⊢
  have hxin : (x.leave cfg p.pid).1 ∈ ((srv.setSession (x.leave cfg p.pid).1).joinFresh cfg p.conn rid ots .new hint).1.sessions := by
    simp only [Server.joinFresh, List.mem_append]
    exact Or.inl (mem_setSession_self hx hlid)
  refine ⟨hxin, ?_, hst.1⟩
  unfold seen
  have hmem := members_of_mem hw' hxin
  rw [hlid] at hmem
  rw [hmem, List.filter_append]
  have hcout : p.conn ∉ (x.leave cfg p.pid).1.parts.map (·.conn) := by
    intro hm
    obtain ⟨q, hq, hqc⟩ := List.mem_map.mp hm
    rw [(Session.leave_frame cfg x p.pid).2.2.2] at hq
    have hq' := List.mem_filter.mp hq
    have : q = p := inj_of_nodup_map (·.conn) (h.members x hx).conns_nodup hq'.1 hp hqc
    subst this
    simp at hq'
  have hnone : (((srv.setSession (x.leave cfg p.pid).1).joinFresh cfg p.conn rid ots .new hint).2.1.filter
      fun d => ((x.leave cfg p.pid).1.parts.map (·.conn)).contains d.1) = [] := by
    apply filter_none
    intro d hd
    simp only [Server.joinFresh] at hd
    have ht := joinDeliveries_tgt cfg _ _ rid ots d hd
    have hdc : d.1 = p.conn := by
      simp [Session.addPart] at ht
      exact ht
    rw [hdc]
    simpa using hcout
  rw [hnone, List.append_nil]

/-- a request that concerns the session does the same to it, and shows its members the same, in both servers -/
theorem insider_step (cfg : Cfg) {xid a : Nat} {s1 s2 : Server} (hA : Agree xid a s1 s2) (hn1 : NoLat s1) (hn2 : NoLat s2) (e : RE)
    (hin : insider s1 xid e = true) (hrc : isReceipt e.r = false) (hea : e.c ≠ a)
    (hj : (members s1 xid).contains e.c = true → joinsOther xid e.r = false) :
    seen (stepReq cfg s1 e).1 xid (stepReq cfg s1 e).2 = seen (stepReq cfg s2 e).1 xid (stepReq cfg s2 e).2 ∧
    Agree xid a (stepReq cfg s1 e).1 (stepReq cfg s2 e).1 := by
  obtain ⟨x, hx1, hx2, hid, hax⟩ := hA.same
  subst hid
  have hw1 := stepReq_WF cfg hA.wf1 e
  have hw2 := stepReq_WF cfg hA.wf2 e
  have hm1 := members_of_mem hA.wf1 hx1
  by_cases hc : e.c ∈ x.parts.map (·.conn)
  · -- a member of the session
    obtain ⟨p, hp, hpc⟩ := List.mem_map.mp hc
    have hj' : joinsOther x.id e.r = false := hj (by rw [hm1]; simpa using hc)
    have hne : a ≠ p.conn := by rw [hpc]; exact fun h => hea h.symm
    have he : e = ⟨p.conn, e.r, e.hint⟩ := by cases e; simp at hpc ⊢; exact hpc.symm
    by_cases hnew : isJoinNew e.r = true
    · -- it leaves for a session of its own
      obtain ⟨c, r, hint⟩ := e
      cases r <;> simp [isJoinNew] at hnew
      case join rid ots t =>
        cases t <;> simp at hnew
        simp only at hpc
        subst hpc
        have r1 := member_leaves_by_new cfg hA.wf1 hn1 hx1 hp hax hne rid ots hint
        have r2 := member_leaves_by_new cfg hA.wf2 hn2 hx2 hp hax hne rid ots hint
        exact ⟨by rw [r1.2.1, r2.2.1], hw1, hw2, _, r1.1, r2.1, (Session.leave_frame cfg x p.pid).1, r1.2.2⟩
    have hnew' : isJoinNew e.r = false := by simpa using hnew
    have r1 := member_any cfg hA.wf1 hx1 hp hax hne e.r e.hint hrc hj' hnew'
    have r2 := member_any cfg hA.wf2 hx2 hp hax hne e.r e.hint hrc hj' hnew'
    rw [← he] at r1 r2
    have hs1 := members_of_mem hw1 r1.1
    have hs2 := members_of_mem hw2 r2.1
    rw [r1.2.2.1] at hs1 hs2
    refine ⟨?_, hw1, hw2, _, r1.1, r2.1, r1.2.2.1, r1.2.2.2⟩
    unfold seen
    rw [hs1, hs2, r1.2.1, r2.2.1]
  · -- somebody else asking to join it
    have hjoin : isJoinTo x.id e.r = true := by
      unfold insider at hin
      have : (members s1 x.id).contains e.c = false := by rw [hm1]; simpa using hc
      rw [this] at hin
      simpa using hin
    obtain ⟨c, r, hint⟩ := e
    cases r <;> simp [isJoinTo] at hjoin
    case join rid ots t =>
      cases t <;> simp at hjoin
      case id n =>
        subst hjoin
        have r1 := join_x cfg hA.wf1 hn1 hx1 c rid ots hint hc
        have r2 := join_x cfg hA.wf2 hn2 hx2 c rid ots hint hc
        refine ⟨by rw [r1.2, r2.2], hw1, hw2, _, r1.1, r2.1, rfl, ?_⟩
        simp only [Session.addPart, List.map_append, List.mem_append]
        exact Or.inl hax

/-- **C03, noninterference at the level of handled requests.**  From two servers that hold the same session `xid` (for
    instance the same server), what the members of that session are sent along any admissible history is what they are
    sent along the history with every request that does not concern the session removed. -/
theorem C03_noninterference (cfg : Cfg) (xid a : Nat) : ∀ (es : List RE) (s1 s2 : Server), Agree xid a s1 s2 →
    NoLat s1 → NoLat s2 →
    Admissible cfg xid a s1 es → obs cfg xid s1 es = obs cfg xid s2 (proj cfg xid s1 es) := by
  intro es
  induction es with
  | nil => intro s1 s2 _ _ _ _; rfl
  | cons e es ih =>
    intro s1 s2 hA hn1 hn2 hadm
    obtain ⟨hrc, hlat, hea, hj, hrest⟩ := hadm
    simp only [obs, proj]
    by_cases hin : insider s1 xid e = true
    · simp only [hin, if_true, obs]
      have r := insider_step cfg hA hn1 hn2 e hin hrc hea hj
      rw [r.1, ih _ _ r.2 (NoLat.step hn1 e hlat) (NoLat.step hn2 e hlat) hrest]
    · have hin' : insider s1 xid e = false := by simpa using hin
      simp only [hin', Bool.false_eq_true, if_false]
      obtain ⟨x, hx1, hx2, hid, hax⟩ := hA.same
      subst hid
      have r := outsider_step cfg hA.wf1 hx1 e hin'
      rw [r.2, List.nil_append]
      exact ih _ _ ⟨stepReq_WF cfg hA.wf1 e, hA.wf2, x, r.1, hx2, rfl, hax⟩ (NoLat.step hn1 e hlat) hn2 hrest

/-- the same, from one server: removing the requests that do not concern a session changes nothing of what its
    members are sent -/
theorem C03_noninterference_self (cfg : Cfg) (srv : Server) (hw : srv.WF) (hn : NoLat srv) (x : Session) (hx : x ∈ srv.sessions) (a : Nat)
    (ha : a ∈ x.parts.map (·.conn)) (es : List RE) (hadm : Admissible cfg x.id a srv es) :
    obs cfg x.id srv es = obs cfg x.id srv (proj cfg x.id srv es) :=
  C03_noninterference cfg x.id a es srv srv ⟨hw, hw, x, hx, hx, rfl, ha⟩ hn hn hadm


/-! ### the hypotheses are satisfiable and the projection does remove something -/

/-- connections 1 and 2 share session 1 (1 only listens); connection 3 creates a session of its own and works in it -/
def exampleStart : Server :=
  (stepReq {} (stepReq {} {} ⟨1, .join 1 0 .new, 0⟩).1 ⟨2, .join 2 0 (.id 1), 0⟩).1

def exampleHistory : List RE :=
  [⟨3, .join 3 0 .new, 0⟩, ⟨3, .entityAdd 4 0 false 0 none, 0⟩, ⟨2, .entityAdd 5 0 false 0 none, 0⟩,
   ⟨3, .custom 0 [] [1, 2], 0⟩, ⟨2, .custom 0 [] [7], 0⟩, ⟨4, .join 6 0 (.id 1), 0⟩, ⟨3, .ping 9, 0⟩]

example : (proj {} 1 exampleStart exampleHistory).map (·.c) = [2, 2, 4] := by decide +kernel

example : (obs {} 1 exampleStart exampleHistory).length = 9 ∧
    obs {} 1 exampleStart exampleHistory = obs {} 1 exampleStart (proj {} 1 exampleStart exampleHistory) := by decide +kernel

example : Admissible {} 1 1 exampleStart exampleHistory := by
  simp only [exampleHistory, Admissible]
  decide +kernel

/-- no measurement is running in the example's start -/
example : ∀ s ∈ exampleStart.sessions, s.lats = [] := by decide +kernel

end Hagall.Props.C03Trace
