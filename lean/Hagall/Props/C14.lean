/-
  C14 - custom messages reach exactly the addressed members, unmodified, within the size limit.
  Property theorems only; helper lemmas live in Hagall/Proofs.
-/
import Hagall.Proofs.Handle
namespace Hagall.Props.C14
open Hagall

/-- The limit the model uses is the protocol's 10240 bytes (the constant extracted from the source is
    tied to it by the facts obligation `Hagall.Gen.customMessageMaxSize_eq (Hagall/Gen/AbsCustom.lean)`). -/
theorem C14_limit : customMessageMaxSize = 10240 := rfl

/-- A body larger than the limit is refused with TOO_LARGE, delivered to no one, and changes nothing. -/
theorem C14_too_large (cfg : Cfg) (s : Session) (p : Part) (ots : Nat) (pids : List Nat) (body : Bytes)
    (h : body.length > 10240) :
    s.custom cfg p ots pids body = (s, [(p.conn, .error 0 ecTooLarge)], .ok) := by
  simp [Session.custom, customMessageMaxSize, h]

/-- A body within the limit (10240 bytes included) is delivered byte for byte, stamped with the sender's
    participant id: exactly once to every other participant when no recipient is named, otherwise exactly
    once to each named participant that is in the session - duplicates, unknown ids and the sender itself
    are ignored; nobody else receives anything, and the session is unchanged. Parametric in `body`. -/
theorem C14_delivery (cfg : Cfg) (s : Session) (p : Part) (ots : Nat) (pids : List Nat) (body : Bytes)
    (hc : (s.parts.map (·.conn)).Nodup) (hp : (s.parts.map (·.pid)).Nodup)
    (hlen : body.length ≤ 10240) (hflag : cfg.flags.contains fCustom = false) :
    let r := s.custom cfg p ots pids body
    let m := Out.customBcast ots p.pid body
    r.1 = s ∧ r.2.2 = .ok ∧
    (∀ q ∈ s.parts, countTo q.conn m r.2.1 = if q.pid ≠ p.pid ∧ (pids = [] ∨ q.pid ∈ pids) then 1 else 0) ∧
    (∀ d ∈ r.2.1, d.2 = m ∧ ∃ q ∈ s.parts, q.pid ≠ p.pid ∧ (pids = [] ∨ q.pid ∈ pids) ∧ d.1 = q.conn) := by
  have hle : ¬ body.length > customMessageMaxSize := by simp [customMessageMaxSize]; omega
  by_cases hnil : pids = []
  · subst hnil
    simp only [Session.custom, hle, if_false, gate, hflag, List.length_nil, bne_self_eq_false,
      Bool.false_eq_true, true_and]
    refine ⟨fun q hq => ?_, fun d hd => ?_⟩
    · rw [s.count_bcast hc p.pid _ q hq]; simp
    · obtain ⟨h1, q, hq, hne, hd1⟩ := Session.mem_bcast hd
      exact ⟨h1, q, hq, hne, Or.inl trivial, hd1⟩
  · have hlen' : (pids.length != 0) = true := by
      cases pids with
      | nil => exact absurd rfl hnil
      | cons a as => simp
    simp only [Session.custom, hle, if_false, gate, hflag, hlen', if_true, Bool.false_eq_true, true_and]
    refine ⟨fun q hq => ?_, fun d hd => ?_⟩
    · rw [s.count_bcastTo hc hp p.pid _ pids q hq]
      simp [hnil, and_comm]
    · obtain ⟨h1, q, hq, hne, hin, hd1⟩ := Session.mem_bcastTo hd
      exact ⟨h1, q, hq, hne, Or.inr hin, hd1⟩

/-- With the custom-message flag set nothing is delivered (and nothing else changes). -/
theorem C14_flagged (cfg : Cfg) (s : Session) (p : Part) (ots : Nat) (pids : List Nat) (body : Bytes)
    (hlen : body.length ≤ 10240) (hflag : cfg.flags.contains fCustom = true) :
    s.custom cfg p ots pids body = (s, [], .ok) := by
  have hle : ¬ body.length > customMessageMaxSize := by simp [customMessageMaxSize]; omega
  simp only [Session.custom, hle, if_false, gate, hflag, if_true]

/-- Through the whole `handleMessage` path (core handler, then every loaded module) a custom message
    is exactly `Session.custom`: no module reacts to it. -/
theorem C14_handle (cfg : Cfg) (s : Session) (p : Part) (ots : Nat) (pids : List Nat) (body : Bytes) (hint : Nat) :
    s.handle cfg p (.custom ots pids body) hint = s.custom cfg p ots pids body := by
  rw [Session.handle_eq_core cfg s p _ hint trivial]
  rfl

/-- non-vacuity: a three-member session, a body addressed to [2, 2, 9, 1] from participant 1 -/
example :
    let s : Session := { id := 1, uuid := 1, pidCur := 3, parts := [⟨1, 10⟩, ⟨2, 20⟩, ⟨3, 30⟩] }
    (s.custom {} ⟨1, 10⟩ 7 [2, 2, 9, 1] [1, 2, 3]).2.1 = [(20, .customBcast 7 1 [1, 2, 3])] := by
  decide

end Hagall.Props.C14
