/-
  C10 - server-issued ids never collide and are never reissued within a session (sequential part).
-/
import Hagall.Proofs.Invariant
import Hagall.Proofs.DataInv
namespace Hagall.Props.C10
open Hagall

/-- For every history, at every moment: no two registered sessions share an id or a UUID; within every
    session participant ids, entity ids, component type ids, component type names and asset instance ids
    are pairwise distinct, and all of them lie at or below the session's counters (so the next id issued,
    counter + 1, is different from every id in use). -/
theorem C10_no_collision (cfg : Cfg) (h : List Event) :
    let srv := (run cfg {} h).1
    (srv.sessions.map (·.id)).Nodup ∧ (srv.sessions.map (·.uuid)).Nodup ∧
    ∀ s ∈ srv.sessions,
      (s.parts.map (·.pid)).Nodup ∧ (∀ p ∈ s.parts, p.pid ≤ s.pidCur) ∧
      (s.ents.map (·.id)).Nodup ∧ (∀ e ∈ s.ents, e.id ≤ s.eidCur) ∧
      (s.types.map (·.1)).Nodup ∧ (s.types.map (·.2)).Nodup ∧ (∀ t ∈ s.types, t.1 ≤ s.tidCur) ∧
      (s.assets.map (·.id)).Nodup ∧ (∀ a ∈ s.assets, a.id ≤ s.assetCur) := by
  have hw := run_WF cfg h Server.WF_init
  have hi := run_AllInv cfg h (Server.AllInv_init cfg)
  refine ⟨hw.ids_nodup, hw.uuid_nodup, ?_⟩
  intro s hs
  have hm := hw.members s hs
  have hd := (hi s hs).1
  exact ⟨hm.pids_nodup, fun p hp => (hm.pid_pos p hp).2, hd.eids_nodup, fun e he => (hd.eid_range e he).2,
         hd.tids_nodup, hd.names_nodup, fun t ht => (hd.tid_range t ht).2, hd.asset_ids, fun a ha => (hd.asset_range a ha).2⟩

theorem types_bijective_list (l : List (Nat × String)) (hn : (l.map (·.2)).Nodup) (ht : (l.map (·.1)).Nodup)
    (name : String) (t : Nat) :
    (l.find? (·.2 == name)).map (·.1) = some t ↔ (l.find? (·.1 == t)).map (·.2) = some name := by
  induction l with
  | nil => simp
  | cons x xs ih =>
    simp only [List.map_cons, List.nodup_cons, List.mem_map, not_exists, not_and] at hn ht
    simp only [List.find?_cons]
    by_cases h1 : x.2 = name <;> by_cases h2 : x.1 = t
    · simp [h1, h2]
    · have hb1 : (x.2 == name) = true := by simpa using h1
      have hb2 : (x.1 == t) = false := by simpa using h2
      simp only [hb1, hb2, Option.map_some, Option.some.injEq]
      constructor
      · intro h'; exact absurd h' h2
      · intro h'
        exfalso
        obtain ⟨y, hy⟩ := Option.map_eq_some_iff.mp h'
        have hmem := List.mem_of_find?_eq_some hy.1
        exact hn.1 y hmem (by rw [hy.2, h1])
    · have hb1 : (x.2 == name) = false := by simpa using h1
      have hb2 : (x.1 == t) = true := by simpa using h2
      simp only [hb1, hb2, Option.map_some, Option.some.injEq]
      constructor
      · intro h'
        exfalso
        obtain ⟨y, hy⟩ := Option.map_eq_some_iff.mp h'
        have hmem := List.mem_of_find?_eq_some hy.1
        exact ht.1 y hmem (by rw [hy.2, h2])
      · intro h'; exact absurd h' h1
    · have hb1 : (x.2 == name) = false := by simpa using h1
      have hb2 : (x.1 == t) = false := by simpa using h2
      simp only [hb1, hb2]
      exact ih hn.2 ht.2

/-- Component type ids and names map one-to-one: a name resolves to an id exactly when that id resolves
    to the name. -/
theorem C10_types_bijective (s : Session) (h : s.DataOK) (name : String) (t : Nat) :
    s.typeId name = some t ↔ s.typeName t = some name :=
  types_bijective_list s.types h.names_nodup h.tids_nodup name t

/-- how the counters of a session may move in one step: never backwards, and the participant counter
    only on a join -/
def Grows (s s' : Session) : Prop :=
  s'.pidCur = s.pidCur ∧ s.eidCur ≤ s'.eidCur ∧ s.tidCur ≤ s'.tidCur ∧ s.assetCur ≤ s'.assetCur

theorem Grows_refl (s : Session) : Grows s s := ⟨rfl, Nat.le_refl _, Nat.le_refl _, Nat.le_refl _⟩
theorem Grows_trans (a b c : Session) (h1 : Grows a b) (h2 : Grows b c) : Grows a c :=
  ⟨h2.1.trans h1.1, Nat.le_trans h1.2.1 h2.2.1, Nat.le_trans h1.2.2.1 h2.2.2.1, Nat.le_trans h1.2.2.2 h2.2.2.2⟩

/-- No request ever moves a counter backwards, and none but a join issues a participant id: ids are
    issued as counter + 1 (`C05_owner_immutable`, `Session.addPart`, `Session.typeAdd`, `Session.odal`) and
    a counter that never decreases never issues the same id twice - not even after its holder is gone,
    because nothing releases an id. -/
theorem C10_counters_monotone (cfg : Cfg) (s : Session) (p : Part) (r : Req) (hint : Nat) :
    Grows s (s.handle cfg p r hint).1 := by
  apply Session.handle_rel Grows Grows_refl Grows_trans
  · intro t
    unfold Session.core Grows
    cases r <;> simp only [] <;> (try unfold_core) <;> (repeat' split) <;>
      simp [Session.setLat, Session.removeEntity, Lat.sendPing]
  · intro t
    unfold Session.vikja Grows
    cases r <;> simp only [] <;> (repeat' split) <;> simp [Session.setAction] <;> (repeat' split) <;> simp
  · intro t
    unfold Session.odal Grows
    cases r <;> simp only [] <;> (repeat' split) <;> simp [Session.setAsset] <;> (repeat' split) <;> simp
  · intro t
    unfold Session.dagaz Grows
    cases r <;> simp

/-- a departure releases no id: every counter stays where it was -/
theorem C10_leave_releases_nothing (cfg : Cfg) (s : Session) (pid : Nat) :
    (s.leave cfg pid).1.pidCur = s.pidCur ∧ (s.leave cfg pid).1.eidCur = s.eidCur ∧
    (s.leave cfg pid).1.tidCur = s.tidCur ∧ (s.leave cfg pid).1.assetCur = s.assetCur := by
  simp [Session.leave]

/-- a join issues the next participant id, different from every id in the session and from every id the
    counter has passed -/
theorem C10_join_fresh_pid (s : Session) (c : Nat) (h : ∀ p ∈ s.parts, p.pid ≤ s.pidCur) :
    (s.addPart c).2.pid = s.pidCur + 1 ∧ (s.addPart c).1.pidCur = s.pidCur + 1 ∧
    ∀ p ∈ s.parts, p.pid ≠ (s.addPart c).2.pid := by
  refine ⟨rfl, rfl, ?_⟩
  intro p hp
  have := h p hp
  simp only [Session.addPart]
  omega

/-- the session-id generator: an id handed out is never one that a registered session holds -/
theorem C10_session_id_fresh (srv : Server) (hw : srv.WF) (hint : Nat) :
    ∀ s ∈ srv.sessions, s.id ≠ (srv.ids.new hint).1 := by
  intro s hs heq
  have hr := hw.id_range s hs
  rcases IdGen.new_spec srv.ids hint with ⟨hin, _, _⟩ | ⟨_, hid, _, _⟩
  · exact hr.2.2 (heq ▸ hin)
  · rw [hid] at heq; omega

end Hagall.Props.C10
