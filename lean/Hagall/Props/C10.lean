/-
  C10 - server-issued ids never collide and are never reissued within a session (sequential part).
-/
import Hagall.Proofs.Invariant
import Hagall.Proofs.DataInv
namespace Hagall.Props.C10
open Hagall

/-- For every history, at every moment: no two registered sessions share an id or a UUID; within every
    session participant ids, entity ids, component type ids, component type names and asset instance ids
    are pairwise distinct, and all of them lie at or below the session's counters (so the next id issued,
    counter + 1, is different from every id in use). -/
theorem C10_no_collision (cfg : Cfg) (h : List Event) :
    let srv := (run cfg {} h).1
    (srv.sessions.map (·.id)).Nodup ∧ (srv.sessions.map (·.uuid)).Nodup ∧
    ∀ s ∈ srv.sessions,
      (s.parts.map (·.pid)).Nodup ∧ (∀ p ∈ s.parts, p.pid ≤ s.pidCur) ∧
      (s.ents.map (·.id)).Nodup ∧ (∀ e ∈ s.ents, e.id ≤ s.eidCur) ∧
      (s.types.map (·.1)).Nodup ∧ (s.types.map (·.2)).Nodup ∧ (∀ t ∈ s.types, t.1 ≤ s.tidCur) ∧
      (s.assets.map (·.id)).Nodup ∧ (∀ a ∈ s.assets, a.id ≤ s.assetCur) := by
  have hw := run_WF cfg h Server.WF_init
  have hi := run_AllInv cfg h (Server.AllInv_init cfg)
  refine ⟨hw.ids_nodup, hw.uuid_nodup, ?_⟩
  intro s hs
  have hm := hw.members s hs
  have hd := (hi s hs).1
  exact ⟨hm.pids_nodup, fun p hp => (hm.pid_pos p hp).2, hd.eids_nodup, fun e he => (hd.eid_range e he).2,
         hd.tids_nodup, hd.names_nodup, fun t ht => (hd.tid_range t ht).2, hd.asset_ids, fun a ha => (hd.asset_range a ha).2⟩

theorem types_bijective_list (l : List (Nat × String)) (hn : (l.map (·.2)).Nodup) (ht : (l.map (·.1)).Nodup)
    (name : String) (t : Nat) :
    (l.find? (·.2 == name)).map (·.1) = some t ↔ (l.find? (·.1 == t)).map (·.2) = some name := by
  induction l with
  | nil => simp
  | cons x xs ih =>
    simp only [List.map_cons, List.nodup_cons, List.mem_map, not_exists, not_and] at hn ht
    simp only [List.find?_cons]
    by_cases h1 : x.2 = name <;> by_cases h2 : x.1 = t
    · simp [h1, h2]
    · have hb1 : (x.2 == name) = true := by simpa using h1
      have hb2 : (x.1 == t) = false := by simpa using h2
      simp only [hb1, hb2, Option.map_some, Option.some.injEq]
      constructor
      · intro h'; exact absurd h' h2
      · intro h'
        exfalso
        obtain ⟨y, hy⟩ := Option.map_eq_some_iff.mp h'
        have hmem := List.mem_of_find?_eq_some hy.1
        exact hn.1 y hmem (by rw [hy.2, h1])
    · have hb1 : (x.2 == name) = false := by simpa using h1
      have hb2 : (x.1 == t) = true := by simpa using h2
      simp only [hb1, hb2, Option.map_some, Option.some.injEq]
      constructor
      · intro h'
        exfalso
        obtain ⟨y, hy⟩ := Option.map_eq_some_iff.mp h'
        have hmem := List.mem_of_find?_eq_some hy.1
        exact ht.1 y hmem (by rw [hy.2, h2])
      · intro h'; exact absurd h' h1
    · have hb1 : (x.2 == name) = false := by simpa using h1
      have hb2 : (x.1 == t) = false := by simpa using h2
      simp only [hb1, hb2]
      exact ih hn.2 ht.2

/-- Component type ids and names map one-to-one: a name resolves to an id exactly when that id resolves
    to the name. -/
theorem C10_types_bijective (s : Session) (h : s.DataOK) (name : String) (t : Nat) :
    s.typeId name = some t ↔ s.typeName t = some name :=
  types_bijective_list s.types h.names_nodup h.tids_nodup name t

/-- how the counters of a session may move in one step: never backwards, and the participant counter
    only on a join -/
def Grows (s s' : Session) : Prop :=
  s'.pidCur = s.pidCur ∧ s.eidCur ≤ s'.eidCur ∧ s.tidCur ≤ s'.tidCur ∧ s.assetCur ≤ s'.assetCur

theorem Grows_refl (s : Session) : Grows s s := ⟨rfl, Nat.le_refl _, Nat.le_refl _, Nat.le_refl _⟩
theorem Grows_trans (a b c : Session) (h1 : Grows a b) (h2 : Grows b c) : Grows a c :=
  ⟨h2.1.trans h1.1, Nat.le_trans h1.2.1 h2.2.1, Nat.le_trans h1.2.2.1 h2.2.2.1, Nat.le_trans h1.2.2.2 h2.2.2.2⟩

/-- No request ever moves a counter backwards, and none but a join issues a participant id: ids are
    issued as counter + 1 (`C05_owner_immutable`, `Session.addPart`, `Session.typeAdd`, `Session.odal`) and
    a counter that never decreases never issues the same id twice - not even after its holder is gone,
    because nothing releases an id. -/
theorem C10_counters_monotone (cfg : Cfg) (s : Session) (p : Part) (r : Req) (hint : Nat) :
    Grows s (s.handle cfg p r hint).1 := by
  apply Session.handle_rel Grows Grows_refl Grows_trans
  · intro t
    unfold Session.core Grows
    cases r <;> simp only [] <;> (try unfold_core) <;> (repeat' split) <;>
      simp [Session.setLat, Session.removeEntity, Lat.sendPing]
  · intro t
    unfold Session.vikja Grows
    cases r <;> simp only [] <;> (repeat' split) <;> simp [Session.setAction] <;> (repeat' split) <;> simp
  · intro t
    unfold Session.odal Grows
    cases r <;> simp only [] <;> (repeat' split) <;> simp [Session.setAsset] <;> (repeat' split) <;> simp
  · intro t
    unfold Session.dagaz Grows
    cases r <;> simp

/-- a departure releases no id: every counter stays where it was -/
theorem C10_leave_releases_nothing (cfg : Cfg) (s : Session) (pid : Nat) :
    (s.leave cfg pid).1.pidCur = s.pidCur ∧ (s.leave cfg pid).1.eidCur = s.eidCur ∧
    (s.leave cfg pid).1.tidCur = s.tidCur ∧ (s.leave cfg pid).1.assetCur = s.assetCur := by
  simp [Session.leave]

/-- a join issues the next participant id, different from every id in the session and from every id the
    counter has passed -/
theorem C10_join_fresh_pid (s : Session) (c : Nat) (h : ∀ p ∈ s.parts, p.pid ≤ s.pidCur) :
    (s.addPart c).2.pid = s.pidCur + 1 ∧ (s.addPart c).1.pidCur = s.pidCur + 1 ∧
    ∀ p ∈ s.parts, p.pid ≠ (s.addPart c).2.pid := by
  refine ⟨rfl, rfl, ?_⟩
  intro p hp
  have := h p hp
  simp only [Session.addPart]
  omega

/-- the session-id generator: an id handed out is never one that a registered session holds -/
theorem C10_session_id_fresh (srv : Server) (hw : srv.WF) (hint : Nat) :
    ∀ s ∈ srv.sessions, s.id ≠ (srv.ids.new hint).1 := by
  intro s hs heq
  have hr := hw.id_range s hs
  rcases IdGen.new_spec srv.ids hint with ⟨hin, _, _⟩ | ⟨_, hid, _, _⟩
  · exact hr.2.2 (heq ▸ hin)
  · rw [hid] at heq; omega

/-! ### the id source by itself, under any use

  `New` and `Reuse` each run under the generator's own mutex (lock facts `locks_SequentialIDGenerator_*`), so whatever
  the number of connections calling them at once, what happens is some sequence of the two operations: "all
  interleavings of concurrent allocations" are the lists below. -/

inductive IdOp where
  | new (hint : Nat)        -- any caller allocates (`hint`: which pooled id Go's map iteration yields)
  | release (i : Nat)       -- a holder gives `i` back (ignored when nobody holds `i`)
deriving Repr, DecidableEq

structure IdSrc where
  gen : IdGen := {}
  held : List Nat := []     -- ids issued and not given back

def IdSrc.step (s : IdSrc) : IdOp → IdSrc
  | .new hint => { gen := (s.gen.new hint).2, held := (s.gen.new hint).1 :: s.held }
  | .release i => if s.held.contains i then { gen := s.gen.reuse i, held := s.held.filter (· != i) } else s

structure IdSrc.Inv (s : IdSrc) : Prop where
  nodup : s.held.Nodup
  heldOk : ∀ i ∈ s.held, i ≤ s.gen.cur ∧ i ∉ s.gen.pool
  poolLe : ∀ i ∈ s.gen.pool, i ≤ s.gen.cur

theorem IdSrc.Inv_step (s : IdSrc) (h : s.Inv) (op : IdOp) : (s.step op).Inv := by
  cases op with
  | new hint =>
    simp only [IdSrc.step]
    rcases IdGen.new_spec s.gen hint with ⟨hin, hpool, hcur⟩ | ⟨hnil, hid, hcur, hpool⟩
    · constructor
      · refine List.nodup_cons.mpr ⟨fun hm => (h.heldOk _ hm).2 hin, h.nodup⟩
      · intro i hi
        rw [hcur, hpool]
        rcases List.mem_cons.mp hi with e | m
        · rw [e]; exact ⟨h.poolLe _ hin, by simp⟩
        · exact ⟨(h.heldOk i m).1, fun x => (h.heldOk i m).2 (List.mem_filter.mp x).1⟩
      · intro i hi; rw [hpool] at hi; rw [hcur]; exact h.poolLe i (List.mem_filter.mp hi).1
    · constructor
      · refine List.nodup_cons.mpr ⟨fun hm => ?_, h.nodup⟩
        have := (h.heldOk _ hm).1; rw [hid] at this; omega
      · intro i hi
        rw [hcur, hpool]
        rcases List.mem_cons.mp hi with e | m
        · rw [e, hid]; exact ⟨Nat.le_refl _, by simp⟩
        · exact ⟨Nat.le_succ_of_le (h.heldOk i m).1, by simp⟩
      · intro i hi; rw [hpool] at hi; simp at hi
  | release i =>
    simp only [IdSrc.step]
    split
    · next hc =>
      have hi : i ∈ s.held := by simpa using hc
      constructor
      · exact List.Nodup.sublist List.filter_sublist h.nodup
      · intro j hj
        have hj' := List.mem_filter.mp hj
        have hne : j ≠ i := by simpa using hj'.2
        refine ⟨by rw [IdGen.reuse_cur]; exact (h.heldOk j hj'.1).1, fun hm => ?_⟩
        rcases (IdGen.mem_reuse_pool s.gen i j).mp hm with m | e
        · exact (h.heldOk j hj'.1).2 m
        · exact hne e
      · intro j hj
        rw [IdGen.reuse_cur]
        rcases (IdGen.mem_reuse_pool s.gen i j).mp hj with m | e
        · exact h.poolLe j m
        · rw [e]; exact (h.heldOk i hi).1
    · exact h

/-- **Ids never collide, however many callers allocate and release at once.** After any sequence of allocations and
    releases on one id source, the ids currently held are pairwise distinct, and an id handed out next is none of
    them. -/
theorem C10_idsource_unique (ops : List IdOp) :
    let s := ops.foldl IdSrc.step {}
    s.held.Nodup ∧ ∀ hint, (s.gen.new hint).1 ∉ s.held := by
  have hinv : (ops.foldl IdSrc.step {}).Inv := by
    have : ∀ (ops : List IdOp) (s : IdSrc), s.Inv → (ops.foldl IdSrc.step s).Inv := by
      intro ops
      induction ops with
      | nil => intro s h; exact h
      | cons o os ih => intro s h; exact ih _ (IdSrc.Inv_step s h o)
    exact this ops {} ⟨by simp, by simp, by simp⟩
  refine ⟨hinv.nodup, fun hint hm => ?_⟩
  have hn := (IdSrc.Inv_step _ hinv (.new hint)).nodup
  simp only [IdSrc.step] at hn
  exact (List.nodup_cons.mp hn).1 hm

/-- an id is handed out again only after it was given back -/
example : let s := [IdOp.new 0, .new 0, .release 1, .new 1].foldl IdSrc.step {}
    s.held = [1, 2] := by decide

end Hagall.Props.C10
