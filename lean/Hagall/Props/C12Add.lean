import Hagall.Model.AddOnce
/-
  C12 under concurrency, the clause "a component is added at most once per (type, entity)": whatever the interleaving of
  adds and deletes of one key, every accepted add but the one still stored has been taken out by an accepted delete -
  two adds are never both accepted with no delete between them.  That `Add` and `Delete` are one critical section each
  under the write lock is `Gen/AbsOrder.component_add_is_one_critical_section`, on the regenerated facts.
-/
namespace Hagall.Props.C12Add
open Hagall.AddOnce

def Inv (s : St) : Prop := s.accepted = s.removed + (if s.present then 1 else 0)

theorem Inv_step (s : St) (m : Move) (h : Inv s) : Inv (step false s m) := by
  unfold Inv at *
  cases m with
  | add c =>
    by_cases hp : s.present = true
    · simp [step, hp]; simpa [hp] using h
    · simp [step, hp]; simpa [hp] using h
  | delete c =>
    by_cases hp : s.present = true
    · simp [step, hp]; simp [hp] at h; omega
    · simp [step, hp]; simpa [hp] using h

theorem Inv_run (s : St) (ms : List Move) (h : Inv s) : Inv (run false s ms) := by
  induction ms generalizing s with
  | nil => exact h
  | cons m ms ih => exact ih _ (Inv_step s m h)

/-- from an empty key, for every interleaving: accepted adds = accepted deletes + (1 if the key is held) -/
theorem C12_conc_add_accepted_once (ms : List Move) :
    (run false {} ms).accepted = (run false {} ms).removed + (if (run false {} ms).present then 1 else 0) :=
  Inv_run {} ms (by simp [Inv])

/-- with no delete in the interleaving at most one add is accepted, however many ask -/
theorem C12_conc_at_most_one_without_delete (ms : List Move) (h : ∀ m ∈ ms, ∃ c, m = .add c) :
    (run false {} ms).accepted ≤ 1 := by
  have hr : ∀ (s : St) (ms : List Move), (∀ m ∈ ms, ∃ c, m = .add c) → (run false s ms).removed = s.removed := by
    intro s ms
    induction ms generalizing s with
    | nil => intro _; rfl
    | cons m ms ih =>
      intro h
      obtain ⟨c, rfl⟩ := h m (by simp)
      have := ih (step false s (.add c)) (fun m hm => h m (by simp [hm]))
      simp only [run, List.foldl_cons] at this ⊢
      rw [this]; by_cases hp : s.present = true <;> simp [step, hp]
  have h1 := C12_conc_add_accepted_once ms
  have h2 := hr {} ms h
  rw [h2] at h1
  rw [h1]; simp only []; split <;> omega

-- the premises are met and the count is reached: three adders, one delete
example : (run false {} [.add 1, .add 2, .delete 3, .add 2, .add 1]).accepted = 2 ∧
          (run false {} [.add 1, .add 2, .delete 3, .add 2, .add 1]).removed = 1 := by decide

/-- a store that looks the key up in one critical section and inserts in another accepts two adds of one key -/
theorem C12_split_add_accepts_twice :
    (run true {} [.add 1, .add 2, .add 1, .add 2]).accepted = 2 ∧ (run true {} [.add 1, .add 2, .add 1, .add 2]).removed = 0 := by decide

end Hagall.Props.C12Add
