/-
  C07 (and the session-id clause of C10) for every lock-granularity interleaving of joins, switches and departures of
  any number of connections: theorems about the concurrent registry model `Model/Registry.lean`, whose transitions are
  the critical sections of `HandleParticipantJoin` / `leaveSession` (tied to /repo by the skeleton and lock facts and by
  the schedule exploration of the real handlers, which is judged by `Spec.quiescentRegistry` - the executable reading
  of `C07_conc_quiescent`).
-/
import Hagall.Proofs.Registry
import Hagall.Model.RegistryOld
namespace Hagall.Props.C07Conc
open Hagall.Registry

/-- The invariant holds after every interleaving, of any length, of any number of connections. -/
theorem C07_conc_invariant (ms : List Move) : Inv (run {} ms) := Inv.init.run ms

/-- A join that was answered with success is never orphaned, at any moment and whatever the other connections are in
    the middle of: while a connection's handler rests in session object `o`, `o` has not ended, the registry resolves
    `o`'s number to `o` itself, and the connection is one of `o`'s participants. -/
theorem C07_conc_join_never_orphaned (ms : List Move) (c o : Nat) (h : (run {} ms).pc c = .idle (some o)) :
    let s := run {} ms
    (s.obj o).ended = false ∧ lookup s.reg (s.obj o).id = some o ∧ c ∈ (s.obj o).members := by
  intro s
  have hi : Inv s := C07_conc_invariant ms
  have hh : o ∈ held (s.pc c) := by rw [h]; simp [held]
  have ⟨he, hr⟩ := hi.member_alive hh
  refine ⟨he, ?_, (hi.mem c o (hi.heldLive c o hh)).mpr hh⟩
  unfold lookup
  cases hf : s.reg.find? (fun (p : Nat × Nat) => p.1 == (s.obj o).id) with
  | none => exact absurd hr (fun hm => by have := List.find?_eq_none.mp hf _ hm; simp at this)
  | some q =>
    have h1 := List.find?_some hf
    have h2 := List.mem_of_find?_eq_some hf
    obtain ⟨a, b⟩ := q
    simp at h1; subst h1
    simp; exact hi.reg_inj h2 hr

/-- A session is unregistered exactly once: the gauge equals the number of registered sessions at every moment, and
    no two registered sessions share a number. -/
theorem C07_conc_registry_consistent (ms : List Move) :
    let s := run {} ms
    s.gauge = s.reg.length ∧ (s.reg.map Prod.fst).Nodup := by
  intro s; exact ⟨(C07_conc_invariant ms).gauge, (C07_conc_invariant ms).regNodup⟩

/-- At every quiescent moment (no handler inside a request) the discoverable sessions are exactly the non-empty ones:
    every registered session has at least one participant, each of them a connection resting in it, and every session
    object that has not ended is registered. -/
theorem C07_conc_quiescent (ms : List Move) (hq : ∀ c, ∃ cur, (run {} ms).pc c = .idle cur) :
    let s := run {} ms
    (∀ i o, (i, o) ∈ s.reg → (s.obj o).ended = false ∧ (s.obj o).members ≠ [] ∧
        ∀ c ∈ (s.obj o).members, s.pc c = .idle (some o)) ∧
    (∀ o, o < s.n → (s.obj o).ended = false → ((s.obj o).id, o) ∈ s.reg) := by
  intro s
  have hi : Inv s := C07_conc_invariant ms
  refine ⟨?_, fun o ho he => (hi.alive o ho he).1⟩
  intro i o hm
  have ho := hi.regOk i o hm
  have he : (s.obj o).ended = false := by
    cases he : (s.obj o).ended with
    | false => rfl
    | true =>
      have := (hi.dead o ho.1 he).2.mp (by rw [ho.2]; exact hm)
      obtain ⟨c, k, hk⟩ := this
      obtain ⟨cur, hc⟩ := hq c
      rw [hc] at hk; cases hk
  refine ⟨he, (hi.alive o ho.1 he).2, ?_⟩
  intro c hc
  have := (hi.mem c o ho.1).mp hc
  obtain ⟨cur, hcur⟩ := hq c
  rw [hcur] at this ⊢
  cases cur with
  | none => simp [held] at this
  | some o' => simp [held] at this; rw [this]

/-- C10, session ids under concurrency: two session objects that are both live (not ended) never carry the same
    number, whatever the interleaving. -/
theorem C10_conc_live_sessions_have_distinct_ids (ms : List Move) (o o' : Nat) :
    let s := run {} ms
    o < s.n → o' < s.n → (s.obj o).ended = false → (s.obj o').ended = false → (s.obj o).id = (s.obj o').id → o = o' := by
  intro s ho ho' he he' hid
  have hi : Inv s := C07_conc_invariant ms
  have h1 := (hi.alive o ho he).1
  have h2 := (hi.alive o' ho' he').1
  rw [hid] at h1
  exact hi.reg_inj h1 h2

/-- The interleaving that orphaned a join before the repair (connection 1, alone in its session, switches to a new one
    while connection 2 joins the old one by its number): in the model of the repaired code, if connection 2 looks the
    session up before the last departure and adds itself after it, it is refused and stays where it was. -/
example :
    let s := run {} [(1, .joinNew, 0), (1, .joinNew, 0), (1, .joinNew, 0),       -- 1 creates session number 1
                     (1, .joinNew, 0),                                            -- 1 asks for a new one: about to leave
                     (2, .joinId 1, 0),                                           -- 2 looks number 1 up: found
                     (1, .joinNew, 0),                                            -- 1 removes itself: last, session ended
                     (2, .joinId 1, 0),                                           -- 2 adds itself: refused
                     (1, .joinNew, 0), (1, .joinNew, 0), (1, .joinNew, 0)]        -- 1 unregisters, takes a number, registers
    s.pc 2 = .idle none ∧ s.pc 1 = .idle (some 1) ∧ s.reg = [(1, 1)] ∧ s.gauge = 1 := by decide

/-- premises of `C07_conc_quiescent` are satisfiable with a registered two-member session -/
example :
    let s := run {} [(1, .joinNew, 0), (1, .joinNew, 0), (1, .joinNew, 0), (2, .joinId 1, 0), (2, .joinId 1, 0)]
    s.pc 1 = .idle (some 0) ∧ s.pc 2 = .idle (some 0) ∧ (s.obj 0).members = [2, 1] ∧ s.reg = [(1, 0)] := by decide

/-- Before the repair (F20): connection 1, alone in session number 1, switches to a new session while connection 2 joins
    number 1.  Connection 2 looks the session up, connection 1 removes itself, finds the session empty and unregisters
    it, connection 2 adds itself: its join is answered with success and it rests in a session that no longer resolves -
    connection 1's new session is registered under the same number. -/
theorem C07_old_code_orphans_a_join :
    let s := RegistryOld.run {} [(1, .joinNew, 0), (1, .joinNew, 0), (1, .joinNew, 0), (1, .joinNew, 0),   -- 1 creates number 1 (object 0)
                                 (1, .joinNew, 0),                    -- 1 asks for a new session: about to leave
                                 (2, .joinId 1, 0),                   -- 2 looks number 1 up: object 0
                                 (1, .joinNew, 0), (1, .joinNew, 0), (1, .joinNew, 0),   -- 1 removes itself, counts 0, unregisters
                                 (2, .joinId 1, 0),                   -- 2 adds itself to object 0
                                 (1, .joinNew, 0), (1, .joinNew, 0), (1, .joinNew, 0)]   -- 1 takes number 1 again, registers, enters
    s.pc 2 = .idle (some 0) ∧ s.pc 1 = .idle (some 1) ∧ lookup s.reg (s.obj 0).id = some 1 ∧ (s.obj 1).id = (s.obj 0).id := by
  decide

/-- Before the repair (F20): the two participants of a session depart at once; both remove themselves before either
    counts, both count zero, both unregister: the gauge goes below the number of registered sessions. -/
theorem C07_old_code_unregisters_twice :
    let s := RegistryOld.run {} [(1, .joinNew, 0), (1, .joinNew, 0), (1, .joinNew, 0), (1, .joinNew, 0),   -- 1 creates number 1
                                 (2, .joinId 1, 0), (2, .joinId 1, 0),                    -- 2 joins it
                                 (1, .disconnect, 0), (2, .disconnect, 0),                -- both ask to leave
                                 (1, .disconnect, 0), (2, .disconnect, 0),                -- both remove themselves
                                 (1, .disconnect, 0), (2, .disconnect, 0),                -- both count zero
                                 (1, .disconnect, 0), (2, .disconnect, 0)]                -- both unregister
    s.reg = [] ∧ s.gauge = -1 := by
  decide

end Hagall.Props.C07Conc
