/-
  C20 / C08, the part of "no well-formed sample panics the index" that is not floating point: when the cell array is a
  rectangle of `cols` x `rows` cells and the spans handed to the bookkeeping end inside it (which is what the clamps of
  `InsertQuad`'s append loops and of `mergeQuads` - `clampCell`, F27 - establish for the far cells), the append loops and
  the four edge loops of a merge index no cell that does not exist, and leave a rectangle of the same size; growing the
  grid leaves a rectangle of the grown size.  `C20_unclamped_far_cell_panics` is the kernel-checked run of the edge loops
  with a far cell one past the last column: the index-out-of-range of the code before the repair.
-/
import Hagall.Props.C20
namespace Hagall.Props.C20Total
open Hagall.Grid

/-- the cell array is `rows` rows of `cols` cells -/
def Rect (c : Cells) (cols rows : Nat) : Prop := c.length = rows ∧ ∀ row ∈ c, row.length = cols

theorem rect_get {c : Cells} {cols rows x y : Nat} (h : Rect c cols rows) (hx : x < cols) (hy : y < rows) :
    ∃ l, c.get x y = some l := by
  unfold Cells.get
  have hy' : y < c.length := by rw [h.1]; exact hy
  rw [List.getElem?_eq_getElem hy']
  have hrow : (c[y]).length = cols := h.2 _ (List.getElem_mem hy')
  have hx' : x < (c[y]).length := by rw [hrow]; exact hx
  exact ⟨(c[y])[x], by simp [List.getElem?_eq_getElem hx']⟩

theorem rect_put {c c' : Cells} {cols rows x y : Nat} {l : List Nat} (h : Rect c cols rows) (hp : c.put x y l = some c') :
    Rect c' cols rows := by
  unfold Cells.put at hp
  split at hp
  · rename_i row hrow
    split at hp
    · injection hp with hp; subst hp
      refine ⟨by simp [h.1], ?_⟩
      intro r hr
      rcases List.mem_or_eq_of_mem_set hr with hm | he
      · exact h.2 r hm
      · subst he
        have : row ∈ c := List.mem_of_getElem? hrow
        simp [h.2 row this]
    · cases hp
  · cases hp

/-- a loop over cells that all exist applies its operation to each and never leaves the array -/
theorem forCells_total {f : List Nat → List Nat} {cols rows : Nat} : ∀ (cs : List (Nat × Nat)) (c : Cells), Rect c cols rows →
    (∀ xy ∈ cs, xy.1 < cols ∧ xy.2 < rows) → ∃ c', c.forCells cs f = some c' ∧ Rect c' cols rows := by
  intro cs
  induction cs with
  | nil => intro c h _; exact ⟨c, by simp [Cells.forCells], h⟩
  | cons xy cs ih =>
    intro c h hin
    have hxy := hin xy (List.mem_cons_self ..)
    obtain ⟨l0, hg⟩ := rect_get h hxy.1 hxy.2
    obtain ⟨c1, hp⟩ := put_isSome_of_get hg (f l0)
    obtain ⟨c', hc', hr'⟩ := ih c1 (rect_put h hp) (fun xy' hm => hin xy' (List.mem_cons_of_mem _ hm))
    exact ⟨c', by rw [forCells_cons]; simp [hg, hp, hc'], hr'⟩

/-- **Appending never leaves the array**: a span whose far cell is inside the grid (the clamp of the append loops). -/
theorem C20_register_never_panics {c : Cells} {cols rows id : Nat} {s : Span} (h : Rect c cols rows)
    (hx : s.maxX < cols) (hy : s.maxY < rows) : ∃ c', register c id s = some c' ∧ Rect c' cols rows := by
  unfold register
  apply forCells_total _ c h
  intro xy hm
  have := (mem_grid2 (x := xy.1) (y := xy.2)).mp (by simpa using hm)
  have h1 := mem_rangeIncl.mp this.1
  have h2 := mem_rangeIncl.mp this.2
  omega

/-- what the clamps establish of a span: its far cell exists, its near cell is at most one past the last (a footprint
    that begins on the far border) -/
def Inside (s : Span) (cols rows : Nat) : Prop := s.minX ≤ cols ∧ s.minY ≤ rows ∧ s.maxX < cols ∧ s.maxY < rows

/-- **A merge never leaves the array**: the four edge loops of `mergeQuads`, for the span before and after the move,
    both clamped. -/
theorem C20_reRegister_never_panics {c : Cells} {cols rows eid : Nat} {s0 s1 : Span} (h : Rect c cols rows)
    (h0 : Inside s0 cols rows) (h1 : Inside s1 cols rows) : ∃ c', reRegister c eid s0 s1 = some c' ∧ Rect c' cols rows := by
  obtain ⟨a0, b0, c0, d0⟩ := h0
  obtain ⟨a1, b1, c1, d1⟩ := h1
  unfold reRegister
  simp only []
  have fx := minmax_facts s0.minX s1.minX
  have fX := minmax_facts s0.maxX s1.maxX
  have fy := minmax_facts s0.minY s1.minY
  have fY := minmax_facts s0.maxY s1.maxY
  -- left edge
  obtain ⟨ca, ha, ra⟩ := forCells_total (f := edgeOp eid (decide (s1.minX < s0.minX)))
    (grid2 (rangeIncl (Nat.min s0.minY s1.minY) (Nat.max s0.maxY s1.maxY)) (rangeExcl (Nat.min s0.minX s1.minX) (Nat.max s0.minX s1.minX))) c h (by
      intro xy hm
      have := (mem_grid2 (x := xy.1) (y := xy.2)).mp (by simpa using hm)
      have p1 := mem_rangeIncl.mp this.1
      have p2 := mem_rangeExcl.mp this.2
      omega)
  -- right edge
  obtain ⟨cb, hb, rb⟩ := forCells_total (f := edgeOp eid (!decide (s1.maxX < s0.maxX)))
    (grid2 (rangeIncl (Nat.min s0.minY s1.minY) (Nat.max s0.maxY s1.maxY)) (rangeDown (Nat.max s0.maxX s1.maxX) (Nat.min s0.maxX s1.maxX))) ca ra (by
      intro xy hm
      have := (mem_grid2 (x := xy.1) (y := xy.2)).mp (by simpa using hm)
      have p1 := mem_rangeIncl.mp this.1
      have p2 := mem_rangeDown.mp this.2
      omega)
  -- top edge
  obtain ⟨cc, hc, rc⟩ := forCells_total (f := edgeOp eid (decide (s1.minY < s0.minY)))
    (grid2 (rangeExcl (Nat.min s0.minY s1.minY) (Nat.max s0.minY s1.minY)) (rangeIncl (Nat.max s0.minX s1.minX) (Nat.min s0.maxX s1.maxX))) cb rb (by
      intro xy hm
      have := (mem_grid2 (x := xy.1) (y := xy.2)).mp (by simpa using hm)
      have p1 := mem_rangeExcl.mp this.1
      have p2 := mem_rangeIncl.mp this.2
      omega)
  -- bottom edge
  obtain ⟨cd, hd, rd⟩ := forCells_total (f := edgeOp eid (!decide (s1.maxY < s0.maxY)))
    (grid2 (rangeDown (Nat.max s0.maxY s1.maxY) (Nat.min s0.maxY s1.maxY)) (rangeIncl (Nat.max s0.minX s1.minX) (Nat.min s0.maxX s1.maxX))) cc rc (by
      intro xy hm
      have := (mem_grid2 (x := xy.1) (y := xy.2)).mp (by simpa using hm)
      have p1 := mem_rangeDown.mp this.1
      have p2 := mem_rangeIncl.mp this.2
      omega)
  exact ⟨cd, by simp [ha, hb, hc, hd], rd⟩

/-- **Growing keeps a rectangle**, of the grown size. -/
theorem C20_grow_rect {c : Cells} {cols rows : Nat} (h : Rect c cols rows) (hr : 0 < rows) (xc yc : Nat) (left top : Bool) :
    Rect (grow c xc yc left top) (xc + cols) (rows + yc) := by
  obtain ⟨hl, hrow⟩ := h
  have hhead : (c.head?.map List.length).getD 0 = cols := by
    cases c with
    | nil => simp at hl; omega
    | cons r rs => simp [hrow r (List.mem_cons_self ..)]
  unfold grow
  simp only [hhead]
  have hmap : ∀ row ∈ c.map (fun row => if left then List.replicate xc [] ++ row else row ++ List.replicate xc []), row.length = xc + cols := by
    intro row hm
    obtain ⟨r, hr', rfl⟩ := List.mem_map.mp hm
    split <;> simp [hrow r hr'] <;> omega
  have hfresh : ∀ row ∈ List.replicate yc (List.replicate (xc + cols) ([] : List Nat)), row.length = xc + cols := by
    intro row hm; rw [(List.mem_replicate.mp hm).2]; simp
  split
  · refine ⟨by simp [hl]; omega, ?_⟩
    intro row hm
    rcases List.mem_append.mp hm with h1 | h1
    · exact hfresh row h1
    · exact hmap row h1
  · refine ⟨by simp [hl], ?_⟩
    intro row hm
    rcases List.mem_append.mp hm with h1 | h1
    · exact hmap row h1
    · exact hfresh row h1

/-- the premises are met by the grid of the corpus stream `F27`: 66 columns, a plane in the last two, moved by one cell -/
example : ∃ c', reRegister (List.replicate 6 (List.replicate 66 [])) 1 ⟨64, 0, 65, 5⟩ ⟨64, 1, 65, 4⟩ = some c' ∧ Rect c' 66 6 :=
  C20_reRegister_never_panics (by constructor <;> simp) (by unfold Inside; simp) (by unfold Inside; simp)

/-- **Before the repair (F27).**  The far cell of the stored plane is computed as column 66 of 66 (the float32 subtraction
    rounded its far edge onto the border) and not clamped: the edge loops index a cell that does not exist. -/
theorem C20_unclamped_far_cell_panics :
    reRegister (List.replicate 6 (List.replicate 66 [])) 1 ⟨64, 0, 66, 5⟩ ⟨64, 1, 65, 4⟩ = none := by decide

end Hagall.Props.C20Total
