/-
  C06 - a departure removes exactly the leaver's non-persistent entities and attachments.
  `Session.leave` is the session part of `leaveSession`, the single function every way of leaving goes
  through (`Server.leave`: disconnect, handler error, session switch; see `Hagall.Props.Reach`).
-/
import Hagall.Spec.Relay
import Hagall.Proofs.Frame
namespace Hagall.Props.C06
open Hagall

variable (cfg : Cfg) (s : Session) (pid : Nat)

/-- the entities a departure of `pid` removes -/
def Doomed (e : Entity) : Prop := e.owner = pid ∧ e.persist = false

/-- Exactly the leaver's non-persistent entities are removed; every other entity - those of other
    participants and the leaver's persistent ones - survives unchanged. -/
theorem C06_entities (e : Entity) :
    e ∈ (s.leave cfg pid).1.ents ↔ e ∈ s.ents ∧ ¬ Doomed pid e := by
  simp only [Session.leave, List.mem_filter, Doomed]
  constructor
  · rintro ⟨h1, h2⟩
    refine ⟨h1, ?_⟩
    rintro ⟨ho, hp⟩
    simp [ho, hp] at h2
  · rintro ⟨h1, h2⟩
    refine ⟨h1, ?_⟩
    by_cases ho : e.owner = pid
    · have : e.persist = true := by
        cases hp : e.persist
        · exact absurd ⟨ho, hp⟩ h2
        · rfl
      simp [this]
    · have : (e.owner == pid) = false := by simpa using ho
      simp [this]

/-- membership in the list of doomed entity ids -/
theorem mem_dead (eid : Nat) : eid ∈ (s.doomed pid).map (·.id) ↔ ∃ e ∈ s.ents, Doomed pid e ∧ e.id = eid := by
  simp only [Session.doomed, List.mem_map, List.mem_filter, Doomed]
  constructor
  · rintro ⟨e, ⟨h1, h2⟩, rfl⟩
    simp only [Bool.and_eq_true, beq_iff_eq, Bool.not_eq_eq_eq_not, Bool.not_true] at h2
    exact ⟨e, h1, h2, rfl⟩
  · rintro ⟨e, h1, ⟨h2, h3⟩, rfl⟩
    exact ⟨e, ⟨h1, by simp [h2, h3]⟩, rfl⟩

/-- The components of the removed entities go with them; every other component stays. -/
theorem C06_components (c : Comp) :
    c ∈ (s.leave cfg pid).1.comps ↔ c ∈ s.comps ∧ ¬ ∃ e ∈ s.ents, Doomed pid e ∧ e.id = c.eid := by
  simp only [Session.leave, List.mem_filter]
  rw [← mem_dead]
  simp

/-- The entity actions of the removed entities go with them (vikja loaded); every other action stays. -/
theorem C06_actions (hv : cfg.vikja = true) (a : Action) :
    a ∈ (s.leave cfg pid).1.actions ↔ a ∈ s.actions ∧ ¬ ∃ e ∈ s.ents, Doomed pid e ∧ e.id = a.eid := by
  simp only [Session.leave, hv, if_true, List.mem_filter]
  rw [← mem_dead]
  simp

/-- The asset instances of the removed entities go with them (odal loaded); every other asset stays. -/
theorem C06_assets (ho : cfg.odal = true) (a : Asset) :
    a ∈ (s.leave cfg pid).1.assets ↔ a ∈ s.assets ∧ ¬ ∃ e ∈ s.ents, Doomed pid e ∧ e.id = a.eid := by
  simp only [Session.leave, ho, if_true, List.mem_filter]
  rw [← mem_dead]
  simp

/-- The leaver's subscriptions end, nobody else's do. -/
theorem C06_subscriptions (t q : Nat) :
    (t, q) ∈ (s.leave cfg pid).1.subs ↔ (t, q) ∈ s.subs ∧ q ≠ pid := by
  simp [Session.leave, List.mem_filter]

/-- The leaver is no longer a participant, everybody else still is; ids and counters are untouched
    (in particular the participant id is not released). -/
theorem C06_participants :
    (s.leave cfg pid).1.parts = s.parts.filter (·.pid != pid) ∧ (s.leave cfg pid).1.pidCur = s.pidCur ∧
    (s.leave cfg pid).1.eidCur = s.eidCur ∧ (s.leave cfg pid).1.id = s.id ∧ (s.leave cfg pid).1.uuid = s.uuid := by
  simp [Session.leave]

/-- closed form of what a departure delivers -/
theorem leave_deliveries :
    (s.leave cfg pid).2 =
      ((s.doomed pid).map (·.id)).flatMap (fun eid => gate cfg fEntityDelete (s.bcast pid (.entityDeleteBcast none eid)))
      ++ gate cfg fLeave ((s.parts.filter (·.pid != pid)).map fun p => (p.conn, Out.leaveBcast pid)) := by
  simp only [Session.leave, Session.bcast, List.filter_filter, Bool.and_self]

/-- The remaining participants are told exactly once about the departure, the leaver is not. -/
theorem C06_leave_broadcast (hc : (s.parts.map (·.conn)).Nodup) (hf : cfg.flags.contains fLeave = false)
    (q : Part) (hq : q ∈ s.parts) :
    countTo q.conn (.leaveBcast pid) (s.leave cfg pid).2 = if q.pid ≠ pid then 1 else 0 := by
  rw [leave_deliveries]
  simp only [gate, hf, Bool.false_eq_true, if_false, countTo_append]
  have h1 : countTo q.conn (Out.leaveBcast pid)
      (((s.doomed pid).map (·.id)).flatMap (fun eid => if cfg.flags.contains fEntityDelete = true then []
        else s.bcast pid (Out.entityDeleteBcast none eid))) = 0 := by
    unfold countTo
    rw [List.count_eq_zero]
    intro hm
    obtain ⟨eid, _, hd⟩ := List.mem_flatMap.mp hm
    split at hd
    · simp at hd
    · have := (Session.mem_bcast hd).1; simp at this
  rw [h1, Nat.zero_add]
  unfold countTo
  rw [count_map_conn s.parts hc q hq]
  simp

/-- The remaining participants are told exactly once about each removed entity (and about no entity that
    survives); the leaver is told nothing. -/
theorem C06_delete_broadcasts (hc : (s.parts.map (·.conn)).Nodup) (he : (s.ents.map (·.id)).Nodup)
    (hf : cfg.flags.contains fEntityDelete = false) (q : Part) (hq : q ∈ s.parts) (eid : Nat) :
    ((q.pid ≠ pid ∧ ∃ e ∈ s.ents, Doomed pid e ∧ e.id = eid) →
        countTo q.conn (.entityDeleteBcast none eid) (s.leave cfg pid).2 = 1) ∧
    (¬(q.pid ≠ pid ∧ ∃ e ∈ s.ents, Doomed pid e ∧ e.id = eid) →
        countTo q.conn (.entityDeleteBcast none eid) (s.leave cfg pid).2 = 0) := by
  rw [leave_deliveries]
  simp only [gate, hf, Bool.false_eq_true, if_false, countTo_append]
  have h2 : countTo q.conn (Out.entityDeleteBcast none eid)
      (if cfg.flags.contains fLeave = true then [] else (s.parts.filter (·.pid != pid)).map fun p => (p.conn, Out.leaveBcast pid)) = 0 := by
    unfold countTo
    rw [List.count_eq_zero]
    intro hm
    split at hm
    · simp at hm
    · obtain ⟨r, _, hr⟩ := List.mem_map.mp hm
      simp at hr
  rw [h2, Nat.add_zero]
  have hdead : ((s.doomed pid).map (·.id)).Nodup :=
    (List.Sublist.map _ List.filter_sublist).nodup he
  unfold countTo
  rw [count_flatMap_unique _ hdead _ _ eid]
  · rw [← mem_dead]
    have := s.count_bcast hc pid (.entityDeleteBcast none eid) q hq
    unfold countTo at this
    rw [this]
    by_cases h1 : eid ∈ (s.doomed pid).map (·.id) <;> by_cases h2 : q.pid = pid <;> simp [h1, h2]
  · intro i hi hm
    have := (Session.mem_bcast hm).1
    simp only [Out.entityDeleteBcast.injEq, true_and] at this
    exact hi this.symm

end Hagall.Props.C06
