/-
  C12 - entity components behave as a map keyed by (component type, entity).
  The component store is abstracted to the *set* of its components; `KeysUnique` (an invariant, proved
  preserved here) makes that set a partial map.  Every component request acts on it exactly as the
  corresponding map operation, guarded as the property says.
-/
import Hagall.Proofs.Frame
import Hagall.Proofs.DataInv
namespace Hagall.Props.C12
open Hagall

/-- at most one component per (type, entity) -/
def KeysUnique (s : Session) : Prop := (s.comps.map fun c => (c.tid, c.eid)).Nodup

/-- the key is occupied -/
def Present (s : Session) (tid eid : Nat) : Prop := ∃ c ∈ s.comps, c.tid = tid ∧ c.eid = eid

variable (cfg : Cfg) (s : Session) (p : Part)

theorem findComp_isSome_iff (tid eid : Nat) : (s.findComp tid eid).isSome = true ↔ Present s tid eid := by
  unfold Session.findComp Present
  rw [List.find?_isSome]
  simp

/-! ### add -/

/-- An add is accepted exactly when the entity exists, the type is registered and the key is free;
    the store then gains exactly that component, the requester is answered, and the key stays unique. -/
theorem C12_add_accepted (rid ots tid eid : Nat) (data : Bytes) (e : Entity)
    (he : s.findEnt eid = some e) (hid : e.id = eid) (ht : (s.typeName tid).isSome) (hfree : ¬ Present s tid eid)
    (hu : KeysUnique s) :
    let r := s.compAdd cfg p rid ots tid eid data
    r.2.2 = .ok ∧ (p.conn, Out.compAddResp rid) ∈ r.2.1 ∧ r.1.comps = s.comps ++ [⟨tid, eid, data⟩] ∧ KeysUnique r.1 := by
  have ht' : (s.typeName tid).isNone = false := by
    cases h : s.typeName tid <;> simp_all
  subst hid
  have hfree' : (s.findComp tid e.id).isSome = false := by
    cases h : (s.findComp tid e.id).isSome
    · rfl
    · exact absurd ((findComp_isSome_iff s tid e.id).mp h) hfree
  simp only [Session.compAdd, he, ht', hfree', Bool.false_eq_true, if_false]
  refine ⟨trivial, List.mem_cons_self .., trivial, ?_⟩
  unfold KeysUnique at *
  simp only [List.map_append, List.map_cons, List.map_nil]
  rw [List.nodup_append]
  refine ⟨hu, by simp, ?_⟩
  intro a ha b hb
  simp only [List.mem_singleton] at hb
  subst hb
  intro heq
  obtain ⟨c, hc, hk⟩ := List.mem_map.mp ha
  rw [heq] at hk
  simp only [Prod.mk.injEq] at hk
  exact hfree ⟨c, hc, hk.1, hk.2⟩

/-- An add for an unknown entity or an unregistered type is refused with NOT_FOUND, for an occupied key
    with CONFLICT; in every case nothing changes and nothing is relayed. -/
theorem C12_add_refused (rid ots tid eid : Nat) (data : Bytes)
    (h : s.findEnt eid = none ∨ (s.typeName tid).isNone ∨ (∃ e, s.findEnt eid = some e ∧ (s.findComp tid e.id).isSome)) :
    ∃ code, (code = ecNotFound ∨ code = ecConflict) ∧
      s.compAdd cfg p rid ots tid eid data = (s, [(p.conn, .error rid code)], .ok) := by
  unfold Session.compAdd
  cases he : s.findEnt eid with
  | none => exact ⟨ecNotFound, Or.inl rfl, rfl⟩
  | some e =>
    simp only []
    by_cases ht : (s.typeName tid).isNone
    · exact ⟨ecNotFound, Or.inl rfl, by simp [ht]⟩
    · by_cases hk : (s.findComp tid e.id).isSome
      · exact ⟨ecConflict, Or.inr rfl, by simp [ht, hk]⟩
      · rcases h with h | h | ⟨e', he', hk'⟩
        · simp [he] at h
        · exact absurd h ht
        · rw [he] at he'; cases he'; exact absurd hk' hk

/-! ### update -/

/-- An update of a component that exists replaces the data under its key and touches nothing else. -/
theorem C12_update_present (ots tid eid : Nat) (data : Bytes) (e : Entity)
    (he : s.findEnt eid = some e) (hid : e.id = eid) (hc : Present s tid eid) :
    let s' := (s.compUpdate cfg p ots tid eid data).1
    (∀ c, c ∈ s'.comps ↔ (c ∈ s.comps ∧ ¬(c.tid = tid ∧ c.eid = eid)) ∨ c = ⟨tid, eid, data⟩) ∧
    (s'.comps.map fun c => (c.tid, c.eid)) = (s.comps.map fun c => (c.tid, c.eid)) := by
  subst hid
  have hsome : (s.findComp tid e.id).isNone = false := by
    have := (findComp_isSome_iff s tid e.id).mpr hc
    cases h : s.findComp tid e.id <;> simp_all
  simp only [Session.compUpdate, he, hsome, Bool.false_eq_true, if_false]
  constructor
  · intro c
    simp only [List.mem_map]
    constructor
    · rintro ⟨x, hx, rfl⟩
      by_cases hk : (x.tid == tid && x.eid == e.id) = true
      · right; rw [if_pos hk]
      · left
        rw [if_neg hk]
        refine ⟨hx, ?_⟩
        intro h
        apply hk
        simp [h.1, h.2]
    · rintro (⟨hx, hk⟩ | rfl)
      · refine ⟨c, hx, ?_⟩
        have : ¬ ((c.tid == tid && c.eid == e.id) = true) := by
          intro h
          simp only [Bool.and_eq_true, beq_iff_eq] at h
          exact hk h
        rw [if_neg this]
      · obtain ⟨x, hx, h1, h2⟩ := hc
        refine ⟨x, hx, ?_⟩
        have : (x.tid == tid && x.eid == e.id) = true := by simp [h1, h2]
        rw [if_pos this]
  · simp only [List.map_map]
    apply List.map_congr_left
    intro x _
    simp only [Function.comp]
    split
    · rename_i h; simp only [Bool.and_eq_true, beq_iff_eq] at h; simp [h.1, h.2]
    · rfl

/-- An update of a component that was never added (or no longer exists), or of an unknown entity,
    changes nothing and is relayed to no one. -/
theorem C12_update_absent (ots tid eid : Nat) (data : Bytes)
    (h : s.findEnt eid = none ∨ ∃ e, s.findEnt eid = some e ∧ ¬ Present s tid e.id) :
    s.compUpdate cfg p ots tid eid data = (s, [], .ok) := by
  rcases h with h | ⟨e, he, hk⟩
  · simp [Session.compUpdate, h]
  · have : (s.findComp tid e.id).isNone = true := by
      cases hf : (s.findComp tid e.id).isSome
      · cases h' : s.findComp tid e.id <;> simp_all
      · exact absurd ((findComp_isSome_iff s tid e.id).mp hf) hk
    simp [Session.compUpdate, he, this]

/-! ### delete -/

/-- A delete of a component that exists removes exactly that key. -/
theorem C12_delete_present (rid ots tid eid : Nat) (e : Entity)
    (he : s.findEnt eid = some e) (hid : e.id = eid) (hc : Present s tid eid) :
    let r := s.compDelete cfg p rid ots tid eid
    (∀ c, c ∈ r.1.comps ↔ c ∈ s.comps ∧ ¬(c.tid = tid ∧ c.eid = eid)) ∧ (p.conn, Out.compDeleteResp rid) ∈ r.2.1 := by
  subst hid
  have hsome : (s.findComp tid e.id).isNone = false := by
    have := (findComp_isSome_iff s tid e.id).mpr hc
    cases h : s.findComp tid e.id <;> simp_all
  simp only [Session.compDelete, he, hsome, Bool.false_eq_true, if_false]
  constructor
  · intro c
    simp only [List.mem_filter, Bool.not_eq_true', Bool.and_eq_false_iff, beq_eq_false_iff_ne, ne_eq]
    constructor
    · rintro ⟨h1, h2⟩
      exact ⟨h1, fun h => by rcases h2 with h2 | h2; exact h2 h.1; exact h2 h.2⟩
    · rintro ⟨h1, h2⟩
      refine ⟨h1, ?_⟩
      by_cases ht : c.tid = tid
      · right; exact fun he' => h2 ⟨ht, he'⟩
      · left; exact ht
  · simp

/-- A delete of a component that does not exist (or of an unknown entity) is refused with NOT_FOUND
    and changes nothing. -/
theorem C12_delete_absent (rid ots tid eid : Nat)
    (h : s.findEnt eid = none ∨ ∃ e, s.findEnt eid = some e ∧ ¬ Present s tid e.id) :
    s.compDelete cfg p rid ots tid eid = (s, [(p.conn, .error rid ecNotFound)], .ok) := by
  rcases h with h | ⟨e, he, hk⟩
  · simp [Session.compDelete, h]
  · have : (s.findComp tid e.id).isNone = true := by
      cases hf : (s.findComp tid e.id).isSome
      · cases h' : s.findComp tid e.id <;> simp_all
      · exact absurd ((findComp_isSome_iff s tid e.id).mp hf) hk
    simp [Session.compDelete, he, this]

/-! ### list, entity removal -/

/-- Listing a type returns exactly its current components. -/
theorem C12_list (rid tid hint : Nat) (h0 : tid ≠ 0) :
    ∃ l, s.core cfg p (.compList rid tid) hint = (s, [(p.conn, .compListResp rid l)], .ok) ∧
      ∀ c, c ∈ l ↔ c ∈ s.comps ∧ c.tid = tid := by
  have : (tid == 0) = false := by simpa using h0
  exact ⟨s.comps.filter (·.tid == tid), by simp [Session.core, this], by intro c; simp [List.mem_filter]⟩

/-- Removing an entity - on request or because its owner left - removes all of its components and
    no others. -/
theorem C12_entity_removed (eid : Nat) :
    ∀ c, c ∈ (s.removeEntity eid).comps ↔ c ∈ s.comps ∧ c.eid ≠ eid := by
  intro c; simp [Session.removeEntity, List.mem_filter]


end Hagall.Props.C12

namespace Hagall.Props.C12
open Hagall

/-- `KeysUnique`, "every component belongs to a live entity" and "every component's type is registered"
    hold in every session of every state reachable by any history - the store really is a partial map. -/
theorem C12_map_invariant (cfg : Cfg) (h : List Event) :
    ∀ s ∈ (run cfg {} h).1.sessions,
      KeysUnique s ∧ (∀ c ∈ s.comps, (s.findEnt c.eid).isSome) ∧ (∀ c ∈ s.comps, (s.typeName c.tid).isSome) := by
  intro s hs
  have := (run_AllInv cfg h (Server.AllInv_init cfg) s hs).1
  exact ⟨this.comp_keys, this.comp_ent, this.comp_type⟩

end Hagall.Props.C12
