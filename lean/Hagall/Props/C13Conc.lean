/-
  C13 under concurrency: for every interleaving of component updates of one type with subscriptions and unsubscriptions
  (`Model/Notify.lean`, one transition per critical section), a participant is sent no update after the answer to its
  unsubscribe request, never its own update, nothing at all if it never subscribed, and - if it stays subscribed - every
  update made by others exactly once, in the order the updates were made.
  `C13_split_notify_reaches_an_unsubscribed_member` is the kernel-checked interleaving of a Notify that relays outside
  the subscription lock.
-/
import Hagall.Model.Notify
namespace Hagall.Props.C13Conc
open Hagall.Notify

/-- no update after the answer to the unsubscribe request -/
def Clean : List Item → Prop
  | [] => True
  | .notified _ :: rest => Clean rest
  | .unsubscribed :: rest => (∀ b, Item.notified b ∉ rest) ∧ Clean rest

theorem Clean_append_notified {l : List Item} (b : Nat) (h : Clean l) (hn : Item.unsubscribed ∉ l) : Clean (l ++ [.notified b]) := by
  induction l with
  | nil => simp [Clean]
  | cons x xs ih =>
    cases x with
    | notified b' => simp only [List.cons_append, Clean]; exact ih h (fun m => hn (List.mem_cons_of_mem _ m))
    | unsubscribed => exact absurd (List.mem_cons_self ..) hn

theorem Clean_append_unsubscribed {l : List Item} (h : Clean l) : Clean (l ++ [.unsubscribed]) := by
  induction l with
  | nil => simp [Clean]
  | cons x xs ih =>
    cases x with
    | notified b' => simp only [List.cons_append, Clean]; exact ih h
    | unsubscribed =>
      simp only [List.cons_append, Clean] at h ⊢
      exact ⟨by intro b; simp [h.1 b], ih h.2⟩

structure Inv (s : St) : Prop where
  gone : ∀ c, s.stage c ≠ 0 → c ∉ s.subs
  unanswered : ∀ c, s.stage c ≠ 2 → Item.unsubscribed ∉ s.inbox c
  clean : ∀ c, Clean (s.inbox c)
  own : ∀ c, Item.notified c ∉ s.inbox c

theorem Inv_step (s : St) (h : Inv s) (m : Move) (hm : m.current = true) : Inv (step s m) := by
  cases m with
  | snapshot b => cases hm
  | serve => cases hm
  | notify b =>
    simp only [step, relay]
    refine ⟨h.gone, ?_, ?_, ?_⟩
    · intro c hc
      simp only []
      split
      · simp; exact h.unanswered c hc
      · exact h.unanswered c hc
    · intro c
      simp only []
      split
      · next hin =>
        have hmem : c ∈ s.subs := by
          simp only [Bool.and_eq_true, List.contains_eq_mem, decide_eq_true_eq] at hin; exact hin.1
        have h0 : s.stage c = 0 := by
          cases hs : s.stage c with
          | zero => rfl
          | succ n => exact absurd hmem (h.gone c (by rw [hs]; simp))
        exact Clean_append_notified b (h.clean c) (h.unanswered c (by rw [h0]; simp))
      · exact h.clean c
    · intro c
      simp only []
      split
      · next hin =>
        have hne : c ≠ b := by
          simp only [Bool.and_eq_true, bne_iff_ne, ne_eq] at hin; exact hin.2
        simp only [List.mem_append, List.mem_singleton, Item.notified.injEq, not_or]
        exact ⟨h.own c, hne⟩
      · exact h.own c
  | subscribe c =>
    simp only [step]
    split
    · next h0 =>
      refine ⟨?_, h.unanswered, h.clean, h.own⟩
      intro x hx hm
      rcases List.mem_cons.mp hm with e | hm'
      · subst e; exact hx h0
      · exact h.gone x hx (List.mem_filter.mp hm').1
    · exact h
  | unsub c =>
    simp only [step]
    split
    · refine ⟨?_, ?_, h.clean, h.own⟩
      · intro x hx hm
        have hm' := List.mem_filter.mp hm
        by_cases e : x = c
        · subst e; simp at hm'
        · simp only [e, if_false] at hx; exact h.gone x hx hm'.1
      · intro x hx
        by_cases e : x = c
        · subst e; next h0 => exact h.unanswered x (by rw [h0]; simp)
        · simp only [e, if_false] at hx; exact h.unanswered x hx
    · exact h
  | answer c =>
    simp only [step]
    split
    · next h1 =>
      refine ⟨?_, ?_, ?_, ?_⟩
      · intro x hx
        by_cases e : x = c
        · subst e; exact h.gone x (by rw [h1]; simp)
        · simp only [e, if_false] at hx; exact h.gone x hx
      · intro x hx
        by_cases e : x = c
        · subst e; simp at hx
        · simp only [e, if_false] at hx ⊢; exact h.unanswered x hx
      · intro x
        by_cases e : x = c
        · subst e; simp only [if_true]; exact Clean_append_unsubscribed (h.clean x)
        · simp only [e, if_false]; exact h.clean x
      · intro x
        by_cases e : x = c
        · subst e; simp only [if_true]; simp [h.own x]
        · simp only [e, if_false]; exact h.own x
    · exact h

theorem Inv_init (subs : List Nat) : Inv { subs } :=
  ⟨by intro c hc; exact absurd rfl hc, by intro c _; simp, by intro c; simp [Clean], by intro c; simp⟩

theorem Inv_run (ms : List Move) (s : St) (h : Inv s) (hms : ∀ m ∈ ms, m.current = true) : Inv (run s ms) := by
  induction ms generalizing s with
  | nil => exact h
  | cons m ms ih =>
    exact ih _ (Inv_step s h m (hms m (List.mem_cons_self ..))) (fun m' hm' => hms m' (List.mem_cons_of_mem _ hm'))

/-- **Nothing after unsubscribing.**  Whatever the interleaving of updates, subscriptions, unsubscriptions and answers,
    and whoever is subscribed at the start, no connection is sent an update of the type after the answer to its
    unsubscribe request. -/
theorem C13_conc_nothing_after_unsubscribing (subs : List Nat) (ms : List Move) (hms : ∀ m ∈ ms, m.current = true) (c : Nat) :
    Clean ((run { subs } ms).inbox c) :=
  (Inv_run ms { subs } (Inv_init subs) hms).clean c

/-- **Never its own.**  No participant is notified of an update it made itself. -/
theorem C13_conc_never_own_update (subs : List Nat) (ms : List Move) (hms : ∀ m ∈ ms, m.current = true) (c : Nat) :
    Item.notified c ∉ (run { subs } ms).inbox c :=
  (Inv_run ms { subs } (Inv_init subs) hms).own c

/-- the updates a connection was sent, in order -/
def notes (l : List Item) : List Nat := l.filterMap fun | .notified b => some b | .unsubscribed => none

/-- the updates made by others than `c`, in the order they were made -/
def madeByOthers (c : Nat) (ms : List Move) : List Nat := ms.filterMap fun | .notify b => if b = c then none else some b | _ => none

theorem notes_append (l : List Item) (x : Item) : notes (l ++ [x]) = notes l ++ notes [x] := by
  simp [notes, List.filterMap_append]

/-- **Nobody that is not subscribed.**  A participant that is not subscribed at the start and never subscribes is sent
    no update, whatever the others do. -/
theorem C13_conc_only_subscribers (subs : List Nat) (ms : List Move) (hms : ∀ m ∈ ms, m.current = true) (c : Nat)
    (h0 : c ∉ subs) (hnever : Move.subscribe c ∉ ms) : notes ((run { subs } ms).inbox c) = [] := by
  have key : ∀ (ms : List Move) (s : St), c ∉ s.subs → notes (s.inbox c) = [] → (∀ m ∈ ms, m.current = true) →
      Move.subscribe c ∉ ms → notes ((run s ms).inbox c) = [] := by
    intro ms
    induction ms with
    | nil => intro s _ hn _ _; exact hn
    | cons m ms ih =>
      intro s hs hn hc hnv
      have hm := hc m (List.mem_cons_self ..)
      have hnv' : Move.subscribe c ∉ ms := fun x => hnv (List.mem_cons_of_mem _ x)
      have hne : m ≠ Move.subscribe c := fun e => hnv (e ▸ List.mem_cons_self ..)
      refine ih (step s m) ?_ ?_ (fun m' hm' => hc m' (List.mem_cons_of_mem _ hm')) hnv'
      · cases m with
        | snapshot b => cases hm
        | serve => cases hm
        | notify b => exact hs
        | subscribe x =>
          simp only [step]; split
          · intro hmem
            rcases List.mem_cons.mp hmem with e | hm'
            · exact hne (by rw [e])
            · exact hs (List.mem_filter.mp hm').1
          · exact hs
        | unsub x => simp only [step]; split
                     · intro hmem; exact hs (List.mem_filter.mp hmem).1
                     · exact hs
        | answer x => simp only [step]; split <;> exact hs
      · cases m with
        | snapshot b => cases hm
        | serve => cases hm
        | notify b =>
          simp only [step, relay]
          have : (s.subs.contains c && c != b) = false := by simp [hs]
          rw [this]; simpa using hn
        | subscribe x => simp only [step]; split <;> exact hn
        | unsub x => simp only [step]; split <;> exact hn
        | answer x =>
          simp only [step]; split
          · by_cases e : c = x
            · subst e; simp only [if_true]; rw [notes_append, hn]; simp [notes]
            · simp only [e, if_false]; exact hn
          · exact hn
  exact key ms { subs } h0 (by simp [notes]) hms hnever

/-- **Every update of the others, once, in order.**  A participant that is subscribed at the start and does not ask to
    unsubscribe is sent exactly the updates the others make, each once, in the order they were made - whoever else
    subscribes, unsubscribes or is answered in between. -/
theorem C13_conc_subscriber_gets_each_update_once (subs : List Nat) (ms : List Move) (hms : ∀ m ∈ ms, m.current = true) (c : Nat)
    (h0 : c ∈ subs) (hstay : Move.unsub c ∉ ms) : notes ((run { subs } ms).inbox c) = madeByOthers c ms := by
  have key : ∀ (ms : List Move) (s : St), c ∈ s.subs → s.stage c = 0 → (∀ m ∈ ms, m.current = true) →
      Move.unsub c ∉ ms → notes ((run s ms).inbox c) = notes (s.inbox c) ++ madeByOthers c ms := by
    intro ms
    induction ms with
    | nil => intro s _ _ _ _; simp [run, madeByOthers]
    | cons m ms ih =>
      intro s hs hst hc hnv
      have hm := hc m (List.mem_cons_self ..)
      have hnv' : Move.unsub c ∉ ms := fun x => hnv (List.mem_cons_of_mem _ x)
      have hne : m ≠ Move.unsub c := fun e => hnv (e ▸ List.mem_cons_self ..)
      have hrest := fun (h1 : c ∈ (step s m).subs) (h2 : (step s m).stage c = 0) =>
        ih (step s m) h1 h2 (fun m' hm' => hc m' (List.mem_cons_of_mem _ hm')) hnv'
      show notes ((run (step s m) ms).inbox c) = _
      cases m with
      | snapshot b => cases hm
      | serve => cases hm
      | notify b =>
        rw [hrest hs hst]
        simp only [step, relay, madeByOthers, List.filterMap_cons]
        by_cases e : b = c
        · subst e; simp
        · have : (s.subs.contains c && c != b) = true := by simp [hs, Ne.symm e]
          simp only [this, if_true, e, if_false]
          rw [notes_append]; simp [notes]
      | subscribe x =>
        have h1 : c ∈ (step s (.subscribe x)).subs := by
          simp only [step]; split
          · by_cases e : c = x
            · subst e; exact List.mem_cons_self ..
            · exact List.mem_cons_of_mem _ (List.mem_filter.mpr ⟨hs, by simp [e]⟩)
          · exact hs
        have h2 : (step s (.subscribe x)).stage c = 0 := by simp only [step]; split <;> exact hst
        rw [hrest h1 h2]
        have : (step s (.subscribe x)).inbox c = s.inbox c := by simp only [step]; split <;> rfl
        rw [this]; simp [madeByOthers]
      | unsub x =>
        have hx : c ≠ x := fun e => hne (by rw [e])
        have h1 : c ∈ (step s (.unsub x)).subs := by
          simp only [step]; split
          · exact List.mem_filter.mpr ⟨hs, by simp [hx]⟩
          · exact hs
        have h2 : (step s (.unsub x)).stage c = 0 := by
          simp only [step]; split
          · simp [hx, hst]
          · exact hst
        rw [hrest h1 h2]
        have : (step s (.unsub x)).inbox c = s.inbox c := by simp only [step]; split <;> rfl
        rw [this]; simp [madeByOthers]
      | answer x =>
        have hx : ¬ (s.stage x = 1 ∧ c = x) := fun ⟨a, e⟩ => by rw [← e, hst] at a; cases a
        have h1 : c ∈ (step s (.answer x)).subs := by simp only [step]; split <;> exact hs
        have h2 : (step s (.answer x)).stage c = 0 := by
          simp only [step]; split
          · next a => have : c ≠ x := fun e => hx ⟨a, e⟩
                      simp [this, hst]
          · exact hst
        rw [hrest h1 h2]
        have : (step s (.answer x)).inbox c = s.inbox c := by
          simp only [step]; split
          · next a => have : c ≠ x := fun e => hx ⟨a, e⟩
                      simp [this]
          · rfl
        rw [this]; simp [madeByOthers]
  have := key ms { subs } h0 rfl hms hstay
  simpa [notes] using this

/-- the premises are met by a run in which a subscriber unsubscribes between two updates: it gets the first only, the
    other subscriber both, the updater none -/
example : let s := run { subs := [1, 2, 3] } [.notify 1, .unsub 2, .answer 2, .notify 1]
    s.inbox 2 = [.notified 1, .unsubscribed] ∧ s.inbox 3 = [.notified 1, .notified 1] ∧ s.inbox 1 = [] := by decide

/-- **A Notify that relays outside the subscription lock** (the shape of `BroadcastTo` before F22, and of the seeded
    change C13-f).  The subscribers are read, one of them unsubscribes and is answered, then the update is handed over:
    it arrives after the answer. -/
theorem C13_split_notify_reaches_an_unsubscribed_member :
    let s := run { subs := [1, 2] } [.snapshot 1, .unsub 2, .answer 2, .serve]
    s.inbox 2 = [.unsubscribed, .notified 1] ∧ ¬ Clean (s.inbox 2) := by
  intro s
  have h : s.inbox 2 = [.unsubscribed, .notified 1] := by decide
  refine ⟨h, ?_⟩
  rw [h]; simp [Clean]

end Hagall.Props.C13Conc
