/-
  C17 - each DISABLE_* feature flag suppresses exactly its own message class.
  For every flag set F (any list of strings: all 1024 subsets of the ten flags, and any unknown names)
  and every history, the run under F has the same states and outcomes as the run under no flag, and its
  deliveries are those of the flag-free run minus the message classes named by F.
-/
import Hagall.Proofs.Flags
import Hagall.Proofs.Frame
namespace Hagall.Props.C17
open Hagall

/-- `r` is `r0` with the deliveries filtered by F -/
def Filtered (F : List String) (r r0 : Session × List Delivery × Outcome) : Prop :=
  r = (r0.1, filterF F r0.2.1, r0.2.2)

def SFiltered (F : List String) (r r0 : Server × List Delivery × Outcome) : Prop :=
  r = (r0.1, filterF F r0.2.1, r0.2.2)

theorem core_filtered (cfg : Cfg) (F : List String) (s : Session) (p : Part) (r : Req) (hint : Nat) :
    Filtered F (s.core (cfg.withFlags F) p r hint) (s.core (cfg.withFlags []) p r hint) := by
  unfold Filtered Session.core
  cases r <;> simp only [] <;> (try unfold_core) <;>
    (try simp only [gate, Cfg.withFlags_flags, List.contains_nil, Bool.false_eq_true, if_false]) <;>
    (repeat' split) <;>
    (try simp_all [filterF_cons, filterF_bcast, filterF_bcastTo, filterF_ite, keepMsg, Out.flagClass, Lat.sendPing,
      fEntityAdd, fEntityDelete, fPose, fCustom, fCompAdd, fCompDelete, fCompUpdate]) <;>
    (try (split <;> split <;> simp_all))

end Hagall.Props.C17

namespace Hagall.Props.C17
open Hagall

/-- a delivery list none of whose messages belongs to a flag class is untouched by the filter -/
theorem filterF_unflagged (F : List String) (ds : List Delivery) (h : ∀ d ∈ ds, d.2.flagClass = none) :
    filterF F ds = ds := by
  unfold filterF
  rw [List.filter_eq_self]
  intro d hd
  simp [keepMsg, h d hd]

theorem vikja_unflagged (s : Session) (p : Part) (r : Req) : ∀ d ∈ (s.vikja p r).2.1, d.2.flagClass = none := by
  unfold Session.vikja
  cases r <;> simp only [] <;> (repeat' split) <;> intro d hd <;> simp at hd <;>
    (try (rcases hd with rfl | hd)) <;> (try rfl) <;> (try (subst hd; rfl))
  all_goals (have := (Session.mem_bcast hd).1; rw [this]; rfl)

theorem odal_unflagged (s : Session) (p : Part) (r : Req) : ∀ d ∈ (s.odal p r).2.1, d.2.flagClass = none := by
  unfold Session.odal
  cases r <;> simp only [] <;> (repeat' split) <;> intro d hd <;> simp at hd <;>
    (try (rcases hd with rfl | hd)) <;> (try rfl) <;> (try (subst hd; rfl))
  all_goals (have := (Session.mem_bcast hd).1; rw [this]; rfl)

theorem dagaz_unflagged (s : Session) (p : Part) (r : Req) : ∀ d ∈ (s.dagaz p r).2.1, d.2.flagClass = none := by
  unfold Session.dagaz
  cases r <;> simp only [] <;> (repeat' split) <;> intro d hd <;> simp at hd <;> (try (subst hd; rfl))

theorem modules_unflagged (cfg : Cfg) (s : Session) (p : Part) (r : Req) :
    ∀ d ∈ (s.modules cfg p r).2.1, d.2.flagClass = none := by
  have step : ∀ (r0 : Res) (f : Session → Res), (∀ d ∈ r0.2.1, d.2.flagClass = none) →
      (∀ t : Session, ∀ d ∈ (f t).2.1, d.2.flagClass = none) → ∀ d ∈ (Res.andThen r0 f).2.1, d.2.flagClass = none := by
    intro r0 f h0 hf
    obtain ⟨t, ds, o⟩ := r0
    cases o
    · rw [Res.andThen_ok]
      intro d hd
      rcases List.mem_append.mp hd with h | h
      · exact h0 d h
      · exact hf t d h
    · exact h0
    · exact h0
  unfold Session.modules
  apply step
  · apply step
    · apply step
      · intro d hd; simp at hd
      · intro t; split
        · exact vikja_unflagged t p r
        · intro d hd; simp at hd
    · intro t; split
      · exact odal_unflagged t p r
      · intro d hd; simp at hd
  · intro t; split
    · exact dagaz_unflagged t p r
    · intro d hd; simp at hd

theorem modules_flags (cfg : Cfg) (F : List String) (s : Session) (p : Part) (r : Req) :
    s.modules (cfg.withFlags F) p r = s.modules (cfg.withFlags []) p r := rfl

/-- the whole `handleMessage` path of a joined connection -/
theorem handle_filtered (cfg : Cfg) (F : List String) (s : Session) (p : Part) (r : Req) (hint : Nat) :
    Filtered F (s.handle (cfg.withFlags F) p r hint) (s.handle (cfg.withFlags []) p r hint) := by
  have hc := core_filtered cfg F s p r hint
  unfold Filtered at hc ⊢
  unfold Session.handle
  rw [hc]
  rcases h0 : s.core (cfg.withFlags []) p r hint with ⟨s', ds, o⟩
  cases o
  · simp only [Res.andThen_ok, modules_flags cfg F]
    rw [filterF_append, filterF_unflagged F _ (modules_unflagged _ s' p r)]
  · rfl
  · rfl

end Hagall.Props.C17

namespace Hagall.Props.C17
open Hagall

theorem filterF_flatMap (F : List String) {α : Type} (l : List α) (f : α → List Delivery) :
    filterF F (l.flatMap f) = l.flatMap fun a => filterF F (f a) := by
  induction l with
  | nil => rfl
  | cons x xs ih => simp [List.flatMap_cons, ih]

theorem ite_not_swap {α : Type} (b : Bool) (x y : α) : (if (!b) = true then x else y) = if b = true then y else x := by
  cases b <;> rfl

theorem filterF_opt (F : List String) (b : Prop) [Decidable b] (c : Nat) (m : Out) (h : m.flagClass = none) :
    filterF F (if b then [(c, m)] else []) = if b then [(c, m)] else [] := by
  split <;> simp [filterF_cons, keepMsg, h]

theorem filterF_vikjaState (F : List String) (b : Prop) [Decidable b] (c : Nat) (a : List Action) :
    filterF F (if b then [(c, Out.vikjaState a)] else []) = if b then [(c, Out.vikjaState a)] else [] :=
  filterF_opt F b c _ rfl

theorem filterF_odalState (F : List String) (b : Prop) [Decidable b] (c : Nat) (a : List Asset) :
    filterF F (if b then [(c, Out.odalState a)] else []) = if b then [(c, Out.odalState a)] else [] :=
  filterF_opt F b c _ rfl

theorem sessionLeave_filtered (cfg : Cfg) (F : List String) (s : Session) (pid : Nat) :
    s.leave (cfg.withFlags F) pid = ((s.leave (cfg.withFlags []) pid).1, filterF F (s.leave (cfg.withFlags []) pid).2) := by
  simp only [Session.leave, gate, Cfg.withFlags_flags, Cfg.withFlags_vikja, Cfg.withFlags_odal,
    List.contains_nil, Bool.false_eq_true, if_false, filterF_append, filterF_flatMap, filterF_bcast,
    keepMsg, Out.flagClass, fEntityDelete, fLeave]
  by_cases h1 : F.contains "DISABLE_ENTITY_DELETE_BROADCAST" = true <;>
    by_cases h2 : F.contains "DISABLE_PARTICIPANT_LEAVE_BROADCAST" = true <;> simp [h1, h2]

theorem serverLeave_filtered (cfg : Cfg) (F : List String) (srv : Server) (s : Session) (p : Part) :
    srv.leave (cfg.withFlags F) s p = ((srv.leave (cfg.withFlags []) s p).1, filterF F (srv.leave (cfg.withFlags []) s p).2) := by
  unfold Server.leave
  rw [sessionLeave_filtered]
  rcases s.leave (cfg.withFlags []) p.pid with ⟨s', ds⟩
  simp only []
  split <;> rfl

theorem joinDeliveries_filtered (cfg : Cfg) (F : List String) (s : Session) (p : Part) (rid ots : Nat) :
    joinDeliveries (cfg.withFlags F) s p rid ots = filterF F (joinDeliveries (cfg.withFlags []) s p rid ots) := by
  simp only [joinDeliveries, gate, Cfg.withFlags_flags, Cfg.withFlags_vikja, Cfg.withFlags_odal,
    List.contains_nil, Bool.false_eq_true, if_false, filterF_append, filterF_cons, filterF_bcast, filterF_ite,
    keepMsg, Out.flagClass, fSessionState, fJoin, filterF_nil, ite_not_swap, if_true, filterF_vikjaState, filterF_odalState]
  by_cases h1 : F.contains "DISABLE_SESSION_STATE" = true <;>
    by_cases h2 : F.contains "DISABLE_PARTICIPANT_JOIN_BROADCAST" = true <;>
    by_cases hv : cfg.vikja = true <;> by_cases ho : cfg.odal = true <;>
    simp [h1, h2, hv, ho, filterF_cons, keepMsg, Out.flagClass]

theorem joinFresh_filtered (cfg : Cfg) (F : List String) (srv : Server) (c rid ots : Nat) (t : JoinTarget) (hint : Nat) :
    SFiltered F (srv.joinFresh (cfg.withFlags F) c rid ots t hint) (srv.joinFresh (cfg.withFlags []) c rid ots t hint) := by
  unfold SFiltered Server.joinFresh
  cases t with
  | bogus => simp [filterF_cons, keepMsg, Out.flagClass]
  | id n =>
    simp only []
    cases srv.findSession n with
    | none => simp [filterF_cons, keepMsg, Out.flagClass]
    | some s => simp only [joinDeliveries_filtered cfg F]
  | new =>
    simp only [joinDeliveries_filtered cfg F]

theorem join_filtered (cfg : Cfg) (F : List String) (srv : Server) (c rid ots : Nat) (t : JoinTarget) (hint : Nat) :
    SFiltered F (srv.join (cfg.withFlags F) c rid ots t hint) (srv.join (cfg.withFlags []) c rid ots t hint) := by
  unfold Server.join
  cases srv.locate c with
  | none => exact joinFresh_filtered cfg F srv c rid ots t hint
  | some sp =>
    obtain ⟨s, p⟩ := sp
    simp only []
    split
    · unfold SFiltered
      by_cases hv : cfg.vikja = true <;> by_cases ho : cfg.odal = true <;>
        simp [hv, ho, filterF_cons, keepMsg, Out.flagClass]
    · split
      · unfold SFiltered
        by_cases hv : cfg.vikja = true <;> by_cases ho : cfg.odal = true <;>
          simp [hv, ho, filterF_cons, keepMsg, Out.flagClass]
      · rw [serverLeave_filtered]
        rcases srv.leave (cfg.withFlags []) s p with ⟨srv', ds⟩
        simp only []
        have := joinFresh_filtered cfg F srv' c rid ots t hint
        unfold SFiltered at this ⊢
        rw [this]
        rcases srv'.joinFresh (cfg.withFlags []) c rid ots t hint with ⟨a, b, o⟩
        simp

theorem handleReq_filtered (cfg : Cfg) (F : List String) (srv : Server) (c : Nat) (r : Req) (hint : Nat) :
    SFiltered F (srv.handleReq (cfg.withFlags F) c r hint) (srv.handleReq (cfg.withFlags []) c r hint) := by
  unfold Server.handleReq
  split
  next => simp [SFiltered, filterF_cons, keepMsg, Out.flagClass]
  next => exact join_filtered cfg F srv c _ _ _ hint
  next rid rc hh sg =>
    unfold SFiltered
    have e : srv.handleReceipt (cfg.withFlags F) c rid rc hh sg = srv.handleReceipt (cfg.withFlags []) c rid rc hh sg := rfl
    rw [e]
    have : ∀ d ∈ (srv.handleReceipt (cfg.withFlags []) c rid rc hh sg).2.1, d.2.flagClass = none := by
      unfold Server.handleReceipt
      (repeat' split) <;> intro d hd <;> simp at hd <;> (subst hd; rfl)
    rw [filterF_unflagged F _ this]
  next =>
    cases srv.locate c with
    | none =>
      simp only [SFiltered]
      have : ∀ d ∈ (notJoined c r).1, d.2.flagClass = none := by
        unfold notJoined
        cases r <;> simp only [] <;> (repeat' split) <;> intro d hd <;> simp at hd <;> (try (subst hd; rfl))
      rw [filterF_unflagged F _ this]
    | some sp =>
      obtain ⟨s, p⟩ := sp
      simp only []
      have := handle_filtered cfg F s p r hint
      unfold Filtered at this
      rw [this]
      rfl

theorem disconnect_filtered (cfg : Cfg) (F : List String) (srv : Server) (c : Nat) :
    srv.disconnect (cfg.withFlags F) c = ((srv.disconnect (cfg.withFlags []) c).1, filterF F (srv.disconnect (cfg.withFlags []) c).2) := by
  unfold Server.disconnect
  cases srv.locate c with
  | none => rfl
  | some sp =>
    obtain ⟨s, p⟩ := sp
    simp only []
    rw [serverLeave_filtered]

/-- One step: same successor state, same outcome, deliveries filtered. -/
theorem C17_step (cfg : Cfg) (F : List String) (srv : Server) (e : Event) :
    SFiltered F (step (cfg.withFlags F) srv e) (step (cfg.withFlags []) srv e) := by
  unfold SFiltered step
  cases e with
  | connect c => simp only []; split <;> rfl
  | recv c r =>
    simp only []
    split
    · rfl
    · split
      · rfl
      · rw [disconnect_filtered]
  | handle c pick hint =>
    simp only []
    split
    · rfl
    · split
      · rfl
      · rename_i k _ r k' _
        have := handleReq_filtered cfg F (srv.setConn k') c r hint
        unfold SFiltered at this
        rw [this]
        rcases (srv.setConn k').handleReq (cfg.withFlags []) c r hint with ⟨srv', ds, o⟩
        cases o
        · rfl
        · simp only [disconnect_filtered cfg F, filterF_append]
        · rfl
  | tick sid => simp only []; split <;> rfl
  | disconnect c => simp only []; rw [disconnect_filtered]
  | drain => rfl

/-- **C17.** For every flag set, every history and every starting state: the run under the flags reaches
    the same server state as the flag-free run, and delivers exactly the flag-free deliveries minus the
    messages whose class a set flag names.  Unknown names (not the class of any message) remove nothing. -/
theorem C17_filter (cfg : Cfg) (F : List String) (h : List Event) (srv : Server) :
    run (cfg.withFlags F) srv h = ((run (cfg.withFlags []) srv h).1, filterF F (run (cfg.withFlags []) srv h).2) := by
  induction h generalizing srv with
  | nil => rfl
  | cons e es ih =>
    simp only [run]
    have hs := C17_step cfg F srv e
    unfold SFiltered at hs
    rw [hs]
    rcases step (cfg.withFlags []) srv e with ⟨srv', ds, o⟩
    simp only []
    rw [ih srv']
    rcases run (cfg.withFlags []) srv' es with ⟨a, b⟩
    simp

/-- a flag name that is the class of no message suppresses nothing -/
theorem C17_unknown_flag (F : List String) (ds : List Delivery)
    (h : ∀ f ∈ F, f ∉ [fSessionState, fJoin, fLeave, fEntityAdd, fEntityDelete, fPose, fCustom, fCompAdd, fCompUpdate, fCompDelete]) :
    filterF F ds = ds := by
  unfold filterF
  rw [List.filter_eq_self]
  intro d _
  unfold keepMsg
  cases hc : d.2.flagClass with
  | none => rfl
  | some f =>
    simp only [Bool.not_eq_true', List.contains_eq_mem, decide_eq_false_iff_not]
    intro hf
    apply h f hf
    unfold Out.flagClass at hc
    split at hc <;> simp_all

end Hagall.Props.C17
