/-
  C01 - every participant's view converges to the server's session state (sequential histories).

  `Spec.View` is what a client holds: the state it was handed on joining, updated by every broadcast it receives
  (`View.apply`).  `Session.pic` is the server's state of a session in the same shape.  For every request of a
  participant `p`, accepted, refused or malformed, and every *other* member `q`:

      applying to the server's state before the request everything `q` is sent during the request
      yields the server's state after the request, and every one of those broadcasts is applicable

  (`C01_request`; likewise `C01_leave` for every way of leaving and `C01_join_others` / `C01_newcomer` for joins).
  Hence by induction a member whose view equals the server state when it joins (`C01_newcomer`: it is handed
  exactly that state) holds the server state after every later event, and a newcomer joining at any moment is
  handed what everybody else holds.

  Scope (see DESIGN.md 0.3, finding F13): this is the participant / entity / pose / action / asset part of the view,
  with no DISABLE_* flag set.  The *component* part is not a theorem because the code does not have the property:
  a component added while its type has no subscriber is announced to nobody (`C01_component_gap` exhibits the
  two-request counterexample on the model; the same history fails on the real server, corpus/F13-*.hist).
-/
import Hagall.Spec.Views
import Hagall.Proofs.DataInv
import Hagall.Proofs.Invariant
import Hagall.Props.C06
namespace Hagall
open Spec

/-- the server's state of a session in the shape of a client view (components apart) -/
def Session.pic (s : Session) : View :=
  { uuid := s.uuid, pid := 0, pids := s.pids, ents := s.ents.map Entity.view, comps := [], actions := s.actions, assets := s.assets }

/-! ### inboxes -/

theorem inbox_nil (c : Nat) : inboxOf c [] = [] := rfl

theorem inbox_append (c : Nat) (a b : List Delivery) : inboxOf c (a ++ b) = inboxOf c a ++ inboxOf c b := by
  simp [inboxOf, List.filterMap_append]

theorem inbox_cons_ne {c a : Nat} (h : a ≠ c) (m : Out) (ds : List Delivery) : inboxOf c ((a, m) :: ds) = inboxOf c ds := by
  simp [inboxOf, List.filterMap_cons, h]

theorem inbox_map_parts (parts : List Part) (hc : (parts.map (·.conn)).Nodup) (q : Part) (hq : q ∈ parts) (f : Part → Bool) (m : Out) :
    inboxOf q.conn ((parts.filter f).map fun x => (x.conn, m)) = if f q then [m] else [] := by
  induction parts with
  | nil => cases hq
  | cons x xs ih =>
    simp only [List.map_cons, List.nodup_cons] at hc
    by_cases hx : x = q
    · subst hx
      have hrest : inboxOf x.conn ((xs.filter f).map fun y => (y.conn, m)) = [] := by
        simp only [inboxOf, List.filterMap_eq_nil_iff, List.mem_map]
        rintro _ ⟨y, hy, rfl⟩
        have hyx : y.conn ≠ x.conn := fun h => hc.1 (List.mem_map.mpr ⟨y, (List.mem_filter.mp hy).1, h⟩)
        simp [hyx]
      by_cases hf : f x = true
      · simp only [List.filter_cons, hf, if_true, List.map_cons]
        simp only [inboxOf, List.filterMap_cons, beq_self_eq_true, if_true] at hrest ⊢
        rw [hrest]
      · simp only [List.filter_cons, hf, Bool.false_eq_true, if_false]; exact hrest
    · have hq' : q ∈ xs := by
        rcases List.mem_cons.mp hq with h | h
        · exact absurd h.symm hx
        · exact h
      have hne : x.conn ≠ q.conn := fun h => hc.1 (List.mem_map.mpr ⟨q, hq', h.symm⟩)
      by_cases hf : f x = true
      · simp only [List.filter_cons, hf, if_true, List.map_cons]
        rw [inbox_cons_ne hne]; exact ih hc.2 hq'
      · simp only [List.filter_cons, hf, Bool.false_eq_true, if_false]; exact ih hc.2 hq'

theorem inbox_bcast {s t : Session} (ht : t.parts = s.parts) (hc : (s.parts.map (·.conn)).Nodup) {q : Part} (hq : q ∈ s.parts)
    (sender : Nat) (m : Out) (hne : q.pid ≠ sender) : inboxOf q.conn (t.bcast sender m) = [m] := by
  unfold Session.bcast
  rw [ht, inbox_map_parts s.parts hc q hq]
  have : (q.pid != sender) = true := by simpa using hne
  simp [this]

/-- the same, for a broadcast that has been unfolded -/
theorem inbox_bcast_parts {parts : List Part} (hc : (parts.map (·.conn)).Nodup) {q : Part} (hq : q ∈ parts)
    (sender : Nat) (m : Out) (hne : q.pid ≠ sender) :
    inboxOf q.conn ((parts.filter fun x => x.pid != sender).map fun x => (x.conn, m)) = [m] := by
  rw [inbox_map_parts parts hc q hq]
  have : (q.pid != sender) = true := by simpa using hne
  simp [this]

/-- everything in a `bcastTo` addressed to `q` is the broadcast message -/
theorem inbox_bcastTo_all {t : Session} (c sender : Nat) (m : Out) (pids : List Nat) :
    ∀ o ∈ inboxOf c (t.bcastTo sender m pids), o = m := by
  intro o ho
  simp only [inboxOf, List.mem_filterMap] at ho
  obtain ⟨d, hd, hdo⟩ := ho
  split at hdo
  · injection hdo with hdo; subst hdo; exact (Session.mem_bcastTo hd).1
  · cases hdo

theorem gate_off {cfg : Cfg} (hf : cfg.flags = []) (f : String) (ds : List Delivery) : gate cfg f ds = ds := by
  simp [gate, hf]

/-! ### applying -/

theorem applyAllCore_append (v : View) (a b : List Out) :
    v.applyAllCore (a ++ b) = (v.applyAllCore a).bind (·.applyAllCore b) := by
  induction a generalizing v with
  | nil => simp [View.applyAllCore]
  | cons m ms ih =>
    simp only [List.cons_append, View.applyAllCore]
    cases v.applyCore m with
    | none => rfl
    | some v' => simp [ih]

/-- broadcasts that do not concern the participant / entity / action / asset part of a view -/
def Out.neutral : Out → Bool
  | .joinBcast .. | .leaveBcast .. | .entityAddBcast .. | .entityDeleteBcast .. | .poseBcast .. | .actionBcast .. | .assetAddBcast .. => false
  | _ => true

theorem applyCore_neutral (v : View) (o : Out) (h : o.neutral = true) : v.applyCore o = some v := by
  cases o <;> simp [Out.neutral] at h <;> rfl

theorem applyAllCore_neutral (v : View) (l : List Out) (h : ∀ o ∈ l, o.neutral = true) : v.applyAllCore l = some v := by
  induction l with
  | nil => rfl
  | cons m ms ih =>
    simp only [View.applyAllCore, applyCore_neutral v m (h m (List.mem_cons_self ..)), Option.bind_some]
    exact ih fun o ho => h o (List.mem_cons_of_mem _ ho)

/-! ### one handler, seen by another member -/

/-- the standing assumptions: `p` sends, `q` is another member of the same session, no flag is set -/
structure Ctx (cfg : Cfg) (s : Session) (p q : Part) : Prop where
  flags : cfg.flags = []
  conns : (s.parts.map (·.conn)).Nodup
  hp : p ∈ s.parts
  hq : q ∈ s.parts
  pid_ne : q.pid ≠ p.pid
  conn_ne : p.conn ≠ q.conn

theorem Ctx.of_members {cfg : Cfg} {s : Session} {p q : Part} (hf : cfg.flags = []) (hm : s.MembersOK)
    (hp : p ∈ s.parts) (hq : q ∈ s.parts) (hne : q.pid ≠ p.pid) : Ctx cfg s p q :=
  ⟨hf, hm.conns_nodup, hp, hq, hne, fun h => hne (congrArg Part.pid (conn_inj hm.conns_nodup hq hp h.symm))⟩

/-- what `q` makes of a handler result computed on `t`: it can apply everything it is sent, and ends up with
    the server's new state -/
def Step (q : Part) (r : Res) (t : Session) : Prop :=
  r.1.parts = t.parts ∧ t.pic.applyAllCore (inboxOf q.conn r.2.1) = some r.1.pic

theorem inbox_of_self_only {p q : Part} (h : p.conn ≠ q.conn) {ds : List Delivery} (hd : ∀ d ∈ ds, d.1 = p.conn) :
    inboxOf q.conn ds = [] := by
  simp only [inboxOf, List.filterMap_eq_nil_iff]
  intro d hdm
  have : d.1 ≠ q.conn := by rw [hd d hdm]; exact h
  simp [this]

/-- a handler that answers only the sender and leaves the picture alone -/
theorem Step.quiet {p q : Part} (h : p.conn ≠ q.conn) {t t' : Session} {ds : List Delivery} {o : Outcome}
    (hparts : t'.parts = t.parts) (hpic : t'.pic = t.pic) (hd : ∀ d ∈ ds, d.1 = p.conn) : Step q (t', ds, o) t := by
  refine ⟨hparts, ?_⟩
  simp only [inbox_of_self_only h hd, View.applyAllCore, hpic]

/-- a handler whose messages to `q` do not concern the picture, and that leaves the picture alone -/
theorem Step.neutral {q : Part} {t t' : Session} {ds : List Delivery} {o : Outcome}
    (hparts : t'.parts = t.parts) (hpic : t'.pic = t.pic) (hn : ∀ m ∈ inboxOf q.conn ds, m.neutral = true) : Step q (t', ds, o) t := by
  refine ⟨hparts, ?_⟩
  simp only [applyAllCore_neutral _ _ hn, hpic]

theorem Res.andThen_step {q : Part} {s : Session} {r : Res} {f : Session → Res}
    (hr : Step q r s) (hf : ∀ t : Session, t.parts = s.parts → Step q (f t) t) : Step q (Res.andThen r f) s := by
  obtain ⟨t, ds, o⟩ := r
  cases o
  · rw [Res.andThen_ok]
    obtain ⟨h1, h2⟩ := hr
    obtain ⟨h3, h4⟩ := hf t h1
    refine ⟨h3.trans h1, ?_⟩
    simp only [inbox_append, applyAllCore_append, h2, Option.bind_some]
    exact h4
  · exact hr
  · exact hr

theorem pic_of_eq {t t' : Session} (h1 : t'.uuid = t.uuid) (h2 : t'.parts = t.parts) (h3 : t'.ents = t.ents)
    (h4 : t'.actions = t.actions) (h5 : t'.assets = t.assets) : t'.pic = t.pic := by
  simp [Session.pic, Session.pids, h1, h2, h3, h4, h5]

/-! ### the modules -/

theorem setAction_actions (t : Session) (a : Action) : (t.setAction a).actions = Spec.setAction t.actions a := by
  unfold Session.setAction Spec.setAction; split <;> rfl

theorem setAsset_assets (t : Session) (a : Asset) : (t.setAsset a).assets = Spec.setAsset t.assets a := by
  unfold Session.setAsset Spec.setAsset; split <;> rfl

theorem setAction_pic (t : Session) (a : Action) : (t.setAction a).pic = { t.pic with actions := Spec.setAction t.actions a } := by
  have h := setAction_actions t a
  unfold Session.setAction at h ⊢
  split <;> simp_all [Session.pic, Session.pids]

theorem setAsset_pic (t : Session) (a : Asset) : (t.setAsset a).pic = { t.pic with assets := Spec.setAsset t.assets a } := by
  have h := setAsset_assets t a
  unfold Session.setAsset at h ⊢
  split <;> simp_all [Session.pic, Session.pids]

def Req.isEntityDelete' : Req → Bool | .entityDelete .. => true | _ => false

theorem vikja_step {cfg : Cfg} {s : Session} {p q : Part} (hx : Ctx cfg s p q) (r : Req) (hr : r.isEntityDelete' = false)
    (t : Session) (ht : t.parts = s.parts) : Step q (t.vikja p r) t := by
  unfold Session.vikja
  cases r <;> simp only [] <;> (try (exact Step.quiet hx.conn_ne rfl rfl (by simp)))
  case entityDelete => simp [Req.isEntityDelete'] at hr
  case action rid ots act =>
    cases act with
    | none => exact Step.quiet hx.conn_ne rfl rfl (by simp)
    | some a =>
      simp only []
      split
      · refine ⟨Session.setAction_parts t a, ?_⟩
        simp only []
        rw [inbox_cons_ne hx.conn_ne, inbox_bcast ((Session.setAction_parts t a).trans ht) hx.conns hx.hq _ _ hx.pid_ne]
        simp [View.applyAllCore, View.applyCore, setAction_pic, Session.pic]
        exact ⟨by unfold Session.setAction; split <;> rfl, by unfold Session.setAction Session.pids; split <;> rfl,
          by unfold Session.setAction; split <;> rfl, (setAction_actions t a).symm, by unfold Session.setAction; split <;> rfl⟩
      · exact Step.quiet hx.conn_ne rfl rfl (by simp)

theorem odal_step {cfg : Cfg} {s : Session} {p q : Part} (hx : Ctx cfg s p q) (r : Req) (hr : r.isEntityDelete' = false)
    (t : Session) (ht : t.parts = s.parts) : Step q (t.odal p r) t := by
  unfold Session.odal
  cases r <;> simp only [] <;> (try (exact Step.quiet hx.conn_ne rfl rfl (by simp)))
  case entityDelete => simp [Req.isEntityDelete'] at hr
  case assetAdd rid ots assetId eid =>
    split
    · exact Step.quiet hx.conn_ne rfl rfl (by simp)
    · split
      · exact Step.quiet hx.conn_ne rfl rfl (by simp)
      · rename_i e he
        split
        · exact Step.quiet hx.conn_ne rfl rfl (by simp)
        · have hparts : ({ t with assetCur := t.assetCur + 1 }.setAsset ⟨t.assetCur + 1, assetId, p.pid, e.id⟩).parts = t.parts := by
            rw [Session.setAsset_parts]
          refine ⟨hparts, ?_⟩
          simp only []
          rw [inbox_cons_ne hx.conn_ne, inbox_bcast (hparts.trans ht) hx.conns hx.hq _ _ hx.pid_ne]
          simp [View.applyAllCore, View.applyCore, setAsset_pic, Session.pic, Session.pids]
          exact ⟨by unfold Session.setAsset; split <;> rfl, by unfold Session.setAsset; split <;> rfl,
            by unfold Session.setAsset; split <;> rfl, by unfold Session.setAsset; split <;> rfl,
            by rw [setAsset_assets]⟩

theorem dagaz_step {cfg : Cfg} {s : Session} {p q : Part} (hx : Ctx cfg s p q) (r : Req)
    (t : Session) : Step q (t.dagaz p r) t := by
  unfold Session.dagaz
  cases r <;> simp only [] <;> exact Step.quiet hx.conn_ne rfl (by simp [Session.pic, Session.pids]) (by simp)

theorem modules_step {cfg : Cfg} {s : Session} {p q : Part} (hx : Ctx cfg s p q) (r : Req) (hr : r.isEntityDelete' = false)
    (t : Session) (ht : t.parts = s.parts) : Step q (t.modules cfg p r) t := by
  have idle : ∀ u : Session, Step q (u, [], Outcome.ok) u := fun u => Step.quiet hx.conn_ne rfl rfl (by simp)
  unfold Session.modules
  apply Res.andThen_step
  · apply Res.andThen_step
    · apply Res.andThen_step
      · exact idle t
      · intro u hu; split
        · exact vikja_step hx r hr u (hu.trans ht)
        · exact idle u
    · intro u hu; split
      · exact odal_step hx r hr u (hu.trans ht)
      · exact idle u
  · intro u hu; split
    · exact dagaz_step hx r u
    · exact idle u

/-! ### the core handlers -/

/-- every delivery is an answer to `c` or a broadcast that does not concern the picture -/
def Neu (c : Nat) (ds : List Delivery) : Prop := ∀ d ∈ ds, d.1 = c ∨ d.2.neutral = true

theorem Neu.nil {c : Nat} : Neu c [] := by intro d h; cases h
theorem Neu.cons_self {c : Nat} {m : Out} {ds : List Delivery} (h : Neu c ds) : Neu c ((c, m) :: ds) := by
  intro d hd
  rcases List.mem_cons.mp hd with rfl | hd
  · exact Or.inl rfl
  · exact h d hd
theorem Neu.append {c : Nat} {a b : List Delivery} (ha : Neu c a) (hb : Neu c b) : Neu c (a ++ b) := by
  intro d hd
  rcases List.mem_append.mp hd with h | h
  · exact ha d h
  · exact hb d h
theorem Neu.gate {c : Nat} {cfg : Cfg} {f : String} {ds : List Delivery} (h : Neu c ds) : Neu c (gate cfg f ds) := by
  unfold Hagall.gate; split
  · exact Neu.nil
  · exact h
theorem Neu.bcast {c : Nat} (t : Session) (a : Nat) {m : Out} (hm : m.neutral = true) : Neu c (t.bcast a m) := by
  intro d hd; right; rw [(Session.mem_bcast hd).1]; exact hm
theorem Neu.bcastTo {c : Nat} (t : Session) (a : Nat) {m : Out} (pids : List Nat) (hm : m.neutral = true) : Neu c (t.bcastTo a m pids) := by
  intro d hd; right; rw [(Session.mem_bcastTo hd).1]; exact hm

theorem Neu.inbox {p q : Part} (h : p.conn ≠ q.conn) {ds : List Delivery} (hn : Neu p.conn ds) :
    ∀ m ∈ inboxOf q.conn ds, m.neutral = true := by
  intro m hm
  simp only [inboxOf, List.mem_filterMap] at hm
  obtain ⟨d, hd, hdm⟩ := hm
  split at hdm
  · rename_i hc
    injection hdm with hdm; subst hdm
    rcases hn d hd with h1 | h1
    · exact absurd ((by simpa using hc : d.1 = q.conn) ▸ h1).symm h
    · exact h1
  · cases hdm

theorem Neu.abandoned (s : Session) (p : Part) : Neu p.conn (s.abandoned p) := by
  unfold Session.abandoned
  split
  · exact Neu.cons_self Neu.nil
  · exact Neu.nil

macro "neu" : tactic =>
  `(tactic| repeat (first
      | exact Neu.nil
      | exact Neu.abandoned _ _
      | exact Neu.bcast _ _ rfl
      | exact Neu.bcastTo _ _ _ rfl
      | apply Neu.cons_self
      | apply Neu.append
      | apply Neu.gate
      | split))

theorem view_map_pose (l : List Entity) (eid v : Nat) :
    (l.map fun x => if x.id == eid then { x with pose := v } else x).map Entity.view =
      (l.map Entity.view).map fun x => if x.id == eid then { x with pose := v } else x := by
  simp only [List.map_map]
  apply List.map_congr_left
  intro x _
  simp only [Function.comp, Entity.view]
  by_cases h : (x.id == eid) = true <;> simp [h]

theorem pic_hasEnt (t : Session) (eid : Nat) : t.pic.hasEnt eid = (t.findEnt eid).isSome := by
  simp only [Session.pic, View.hasEnt, Session.findEnt, List.any_map, Entity.view, Function.comp_def]
  rw [Bool.eq_iff_iff, List.any_eq_true, List.find?_isSome]

theorem core_step {cfg : Cfg} {s : Session} {p q : Part} (hx : Ctx cfg s p q) (hI : s.DataOK) (r : Req)
    (hr : r.isEntityDelete' = false) (hint : Nat) : Step q (s.core cfg p r hint) s := by
  have quiet : ∀ (t' : Session) (ds : List Delivery) (o : Outcome), t'.parts = s.parts → t'.pic = s.pic → Neu p.conn ds →
      Step q (t', ds, o) s := fun t' ds o h1 h2 h3 => Step.neutral h1 h2 (Neu.inbox hx.conn_ne h3)
  unfold Session.core
  cases r <;> simp only []
  case entityDelete => simp [Req.isEntityDelete'] at hr
  case entityAdd rid ots persist flag pose =>
    simp only [Session.entityAdd]
    refine ⟨rfl, ?_⟩
    simp only []
    rw [inbox_cons_ne hx.conn_ne, gate_off hx.flags]
    simp only [Session.bcast]
    rw [inbox_bcast_parts hx.conns hx.hq _ _ hx.pid_ne]
    have hfresh : s.pic.hasEnt (s.eidCur + 1) = false := by
      rw [pic_hasEnt]
      cases hf : s.findEnt (s.eidCur + 1) with
      | none => rfl
      | some e =>
        have := findEnt_some_mem hf
        have := hI.eid_range e this.1
        omega
    simp only [View.applyAllCore, View.applyCore, Entity.view, hfresh, Bool.false_eq_true, if_false, Option.bind_some]
    simp [Session.pic, Session.pids, Entity.view]
  case updatePose ots eid pose =>
    simp only [Session.updatePose]
    split
    · exact quiet _ _ _ rfl rfl Neu.nil
    · rename_i e he
      split
      · exact quiet _ _ _ rfl rfl Neu.nil
      · split
        · exact quiet _ _ _ rfl rfl Neu.nil
        · rename_i v
          have hid : e.id = eid := (findEnt_some_mem he).2
          refine ⟨rfl, ?_⟩
          simp only []
          rw [gate_off hx.flags]
          simp only [Session.bcast]
          rw [inbox_bcast_parts hx.conns hx.hq _ _ hx.pid_ne]
          have hhas : s.pic.hasEnt e.id = true := by rw [pic_hasEnt, hid, he]; rfl
          simp only [View.applyAllCore, View.applyCore, hhas, if_true, Option.bind_some]
          simp only [Session.pic, Session.pids, view_map_pose]
  all_goals (try unfold_core)
  all_goals (try simp only [Lat.sendPing])
  all_goals (repeat' split)
  all_goals first
    | (apply quiet _ _ _ rfl rfl; neu)
    | (apply quiet _ _ _ rfl (by simp [Session.pic, Session.pids, Session.setLat]); neu)

/-! ### a whole request -/

theorem handle_step {cfg : Cfg} {s : Session} {p q : Part} (hx : Ctx cfg s p q) (hI : s.DataOK) (r : Req)
    (hr : r.isEntityDelete' = false) (hint : Nat) : Step q (s.handle cfg p r hint) s := by
  unfold Session.handle
  exact Res.andThen_step (core_step hx hI r hr hint) (fun t ht => modules_step hx r hr t ht)

theorem filter_view (l : List Entity) (eid : Nat) :
    (l.filter (·.id != eid)).map Entity.view = (l.map Entity.view).filter (·.id != eid) := by
  induction l with
  | nil => rfl
  | cons x xs ih =>
    simp only [List.filter_cons, List.map_cons, Entity.view]
    by_cases h : (x.id != eid) = true <;> simp [h, ih, Entity.view]

theorem filter_nothing_of_absent {α : Type} (l : List α) (key : α → Nat) (eid : Nat) (h : ∀ a ∈ l, key a ≠ eid) :
    l.filter (fun a => key a != eid) = l := by
  rw [List.filter_eq_self]; intro a ha; simpa using h a ha

theorem delete_step {cfg : Cfg} {s : Session} {p q : Part} (hx : Ctx cfg s p q) (hI : s.Inv cfg) (rid ots eid hint : Nat) :
    Step q (s.handle cfg p (.entityDelete rid ots eid) hint) s := by
  obtain ⟨hD, hV, hO⟩ := hI
  have hquietm := Session.modules_entityDelete_quiet cfg p rid ots eid
  unfold Session.handle
  simp only [Session.core, Session.entityDelete]
  cases he : s.findEnt eid with
  | none =>
    -- unknown entity: refused; the modules' hooks find nothing to clean up
    simp only []
    rw [Res.andThen_ok]
    have hgone := Session.modules_entityDelete_gone cfg s p rid ots eid (by rw [he]; rfl)
    have hq2 := hquietm s
    refine ⟨by rw [hgone], ?_⟩
    simp only [hq2, List.append_nil, inbox_cons_ne hx.conn_ne, inbox_nil, View.applyAllCore]
    rw [hgone]
    have ha : s.actions.filter (·.eid != eid) = s.actions :=
      filter_nothing_of_absent _ (fun a : Action => a.eid) eid (fun a ha hae => by
        have := hD.act_ent a ha; rw [hae, he] at this; cases this)
    have hs : s.assets.filter (·.eid != eid) = s.assets :=
      filter_nothing_of_absent _ (fun a : Asset => a.eid) eid (fun a ha hae => by
        have := hD.asset_ent a ha; rw [hae, he] at this; cases this)
    simp only [Session.pic, Session.pids, ha, hs]
    cases cfg.vikja <;> cases cfg.odal <;> rfl
  | some e =>
    simp only []
    have hid : e.id = eid := (findEnt_some_mem he).2
    by_cases hown : (e.owner != p.pid) = true
    · -- not the owner: refused, the entity is still there, the hooks do nothing
      simp only [hown, if_true]
      rw [Res.andThen_ok]
      have hv := Session.vikja_delete_present s p rid ots eid e he
      have ho := Session.odal_delete_present s p rid ots eid e he
      have hm : s.modules cfg p (.entityDelete rid ots eid) = (s, [], .ok) :=
        Session.modules_noop cfg s p _ (fun _ => hv) (fun _ => ho) (fun _ => rfl)
      rw [hm]
      exact Step.quiet hx.conn_ne rfl rfl (by simp)
    · -- the owner deletes: everybody else is told, and drops the entity with what hangs on it
      simp only [hown, Bool.false_eq_true, if_false]
      rw [Res.andThen_ok]
      have hgone0 : ((s.removeEntity e.id).findEnt eid).isNone = true := by
        rw [hid]
        cases hf : (s.removeEntity eid).findEnt eid with
        | none => rfl
        | some x =>
          have := findEnt_some_mem hf
          simp [Session.removeEntity] at this
          exact absurd this.2 this.1.2
      have hgone := Session.modules_entityDelete_gone cfg (s.removeEntity e.id) p rid ots eid hgone0
      have hq2 := hquietm (s.removeEntity e.id)
      refine ⟨by rw [hgone]; rfl, ?_⟩
      simp only [hq2, List.append_nil]
      rw [inbox_cons_ne hx.conn_ne, gate_off hx.flags]
      have hparts : (s.removeEntity e.id).parts = s.parts := rfl
      simp only [Session.bcast, hparts]
      rw [inbox_bcast_parts hx.conns hx.hq _ _ hx.pid_ne]
      have hhas : s.pic.hasEnt e.id = true := by rw [pic_hasEnt, hid, he]; rfl
      simp only [View.applyAllCore, View.applyCore, hhas, if_true, Option.bind_some]
      rw [hgone]
      have ha : (if cfg.vikja = true then s.actions.filter (·.eid != eid) else s.actions) = s.actions.filter (·.eid != eid) := by
        by_cases hv : cfg.vikja = true
        · simp [hv]
        · have : cfg.vikja = false := by simpa using hv
          simp [this, hV this]
      have hs : (if cfg.odal = true then s.assets.filter (·.eid != eid) else s.assets) = s.assets.filter (·.eid != eid) := by
        by_cases hv : cfg.odal = true
        · simp [hv]
        · have : cfg.odal = false := by simpa using hv
          simp [this, hO this]
      simp only [Session.removeEntity, Session.pic, Session.pids, View.dropEntity, ha, hs, hid, filter_view, List.filter_nil]

/-- **C01, one request.** With no flag set, for every request of participant `p` - accepted, refused or
    malformed, core or module - every other member `q` of the session can apply everything it is sent during
    the request (nothing is inapplicable), and doing so to the server's state before the request yields the
    server's state after it (participants, entities with owner, flag and pose, entity actions, asset instances). -/
theorem C01_request (cfg : Cfg) (hf : cfg.flags = []) (s : Session) (hI : s.Inv cfg) (hM : s.MembersOK)
    (p q : Part) (hp : p ∈ s.parts) (hq : q ∈ s.parts) (hne : q.pid ≠ p.pid) (r : Req) (hint : Nat) :
    s.pic.applyAllCore (inboxOf q.conn (s.handle cfg p r hint).2.1) = some (s.handle cfg p r hint).1.pic := by
  have hx := Ctx.of_members hf hM hp hq hne
  cases hr : r.isEntityDelete' with
  | false => exact (handle_step hx hI.1 r hr hint).2
  | true =>
    cases r <;> simp [Req.isEntityDelete'] at hr
    exact (delete_step hx hI _ _ _ hint).2

/-! ### departures -/

def Spec.View.dropAll (v : View) (ids : List Nat) : View :=
  { v with ents := v.ents.filter (fun e => !ids.contains e.id), comps := v.comps.filter (fun c => !ids.contains c.eid),
           actions := v.actions.filter (fun a => !ids.contains a.eid), assets := v.assets.filter (fun a => !ids.contains a.eid) }

theorem filter_filter_contains {α : Type} (l : List α) (key : α → Nat) (i : Nat) (ids : List Nat) :
    (l.filter (fun a => key a != i)).filter (fun a => !ids.contains (key a)) = l.filter (fun a => !(i :: ids).contains (key a)) := by
  rw [List.filter_filter]
  apply List.filter_congr
  intro a _
  by_cases h : key a = i
  · simp [h]
  · have h' : (key a == i) = false := by simpa using h
    simp [List.contains_cons, h', bne, h]

theorem dropEntity_dropAll (v : View) (i : Nat) (ids : List Nat) : (v.dropEntity i).dropAll ids = v.dropAll (i :: ids) := by
  simp only [View.dropEntity, View.dropAll]
  congr 1
  · exact filter_filter_contains v.ents (·.id) i ids
  · exact filter_filter_contains v.comps (·.eid) i ids
  · exact filter_filter_contains v.actions (·.eid) i ids
  · exact filter_filter_contains v.assets (·.eid) i ids

theorem dropAll_nil (v : View) : v.dropAll [] = v := by
  cases v
  simp [View.dropAll, List.filter_eq_self]

theorem hasEnt_dropEntity (v : View) (i j : Nat) (h : j ≠ i) : (v.dropEntity i).hasEnt j = v.hasEnt j := by
  simp only [View.dropEntity, View.hasEnt, List.any_filter]
  congr 1
  funext x
  by_cases hx : x.id = j
  · simp [hx, h]
  · have : (x.id == j) = false := by simpa using hx
    simp [this]

/-- delete broadcasts for distinct entities the view has: all applicable, and they drop exactly those -/
theorem applyAllCore_deletes : ∀ (ids : List Nat) (v : View) (ots : Option Nat), ids.Nodup → (∀ i ∈ ids, v.hasEnt i = true) →
    v.applyAllCore (ids.map fun i => Out.entityDeleteBcast ots i) = some (v.dropAll ids) := by
  intro ids
  induction ids with
  | nil => intro v _ _ _; simp [View.applyAllCore, dropAll_nil]
  | cons i is ih =>
    intro v ots hnd hall
    simp only [List.nodup_cons] at hnd
    simp only [List.map_cons, View.applyAllCore, View.applyCore, hall i (List.mem_cons_self ..), if_true, Option.bind_some]
    rw [ih (v.dropEntity i) ots hnd.2 (fun j hj => by
      rw [hasEnt_dropEntity v i j (fun h => hnd.1 (h ▸ hj))]; exact hall j (List.mem_cons_of_mem _ hj))]
    rw [dropEntity_dropAll]

theorem inbox_flatMap_bcast {parts : List Part} (hc : (parts.map (·.conn)).Nodup) {q : Part} (hq : q ∈ parts) (sender : Nat)
    (hne : q.pid ≠ sender) (f : Nat → Out) (ids : List Nat) :
    inboxOf q.conn (ids.flatMap fun i => (parts.filter fun x => x.pid != sender).map fun x => (x.conn, f i)) = ids.map f := by
  induction ids with
  | nil => rfl
  | cons i is ih =>
    simp only [List.flatMap_cons, inbox_append, List.map_cons, ih]
    rw [inbox_bcast_parts hc hq sender (f i) hne]
    rfl

/-- **C01, departures.** When participant `pid` leaves (disconnect, handler error, session switch), every remaining
    member can apply everything it is sent - one delete per non-persistent entity of the leaver, then the leave -
    and ends up with the server's state after the departure. -/
theorem C01_leave (cfg : Cfg) (hf : cfg.flags = []) (s : Session) (hI : s.Inv cfg) (hM : s.MembersOK)
    (pid : Nat) (hpid : pid ∈ s.pids) (q : Part) (hq : q ∈ s.parts) (hne : q.pid ≠ pid) :
    s.pic.applyAllCore (inboxOf q.conn (s.leave cfg pid).2) = some (s.leave cfg pid).1.pic := by
  obtain ⟨hD, hV, hO⟩ := hI
  rw [Props.C06.leave_deliveries]
  simp only [gate_off hf, inbox_append, Session.bcast]
  rw [inbox_flatMap_bcast hM.conns_nodup hq pid hne (fun eid => Out.entityDeleteBcast none eid)]
  have hq' : q ∈ s.parts.filter (·.pid != pid) := List.mem_filter.mpr ⟨hq, by simpa using hne⟩
  have hleave : inboxOf q.conn ((s.parts.filter (·.pid != pid)).map fun x => (x.conn, Out.leaveBcast pid)) = [Out.leaveBcast pid] := by
    have := inbox_bcast_parts hM.conns_nodup hq pid (Out.leaveBcast pid) hne
    exact this
  rw [hleave, applyAllCore_append]
  -- the deletes
  have hdead_nodup : ((s.doomed pid).map (·.id)).Nodup := by
    unfold Session.doomed
    exact ((List.filter_sublist (l := s.ents)).map _).nodup hD.eids_nodup
  have hdead_has : ∀ i ∈ (s.doomed pid).map (·.id), s.pic.hasEnt i = true := by
    intro i hi
    obtain ⟨e, he, rfl⟩ := List.mem_map.mp hi
    rw [pic_hasEnt]
    exact (findEnt_isSome_iff s e.id).mpr ⟨e, (List.mem_filter.mp he).1, rfl⟩
  rw [applyAllCore_deletes _ s.pic none hdead_nodup hdead_has]
  simp only [Option.bind_some, View.applyAllCore, View.applyCore]
  have hin : (s.pic.dropAll ((s.doomed pid).map (·.id))).pids.contains pid = true := by
    simpa [View.dropAll, Session.pic] using hpid
  rw [hin]
  simp only [if_true, Option.bind_some, Option.some.injEq]
  -- the server's state after the departure
  have hents : s.ents.filter (fun e => !(e.owner == pid && !e.persist)) =
      s.ents.filter (fun e => !((s.doomed pid).map (·.id)).contains e.id) := by
    apply List.filter_congr
    intro e he
    by_cases hd : (e.owner == pid && !e.persist) = true
    · have : e.id ∈ (s.doomed pid).map (·.id) := List.mem_map.mpr ⟨e, List.mem_filter.mpr ⟨he, hd⟩, rfl⟩
      simp [hd, this]
    · have hno : e.id ∉ (s.doomed pid).map (·.id) := by
        intro hm
        obtain ⟨e', he', hid⟩ := List.mem_map.mp hm
        have hmem := (List.mem_filter.mp he')
        have : e' = e := by
          have hinj : ∀ (l : List Entity), (l.map (·.id)).Nodup → e' ∈ l → e ∈ l → e'.id = e.id → e' = e := by
            intro l hl h1 h2 h3
            induction l with
            | nil => cases h1
            | cons z zs ih =>
              simp only [List.map_cons, List.nodup_cons, List.mem_map, not_exists, not_and] at hl
              rcases List.mem_cons.mp h1 with rfl | h1' <;> rcases List.mem_cons.mp h2 with rfl | h2'
              · rfl
              · exact absurd h3.symm (hl.1 e h2')
              · exact absurd h3 (hl.1 e' h1')
              · exact ih hl.2 h1' h2'
          exact hinj s.ents hD.eids_nodup hmem.1 he hid
        subst this
        exact hd hmem.2
      have hd' : (e.owner == pid && !e.persist) = false := by simpa using hd
      simp [hd', hno]
  have ha : (if cfg.vikja = true then s.actions.filter (fun a => !((s.doomed pid).map (·.id)).contains a.eid) else s.actions) =
      s.actions.filter (fun a => !((s.doomed pid).map (·.id)).contains a.eid) := by
    by_cases hv : cfg.vikja = true
    · simp [hv]
    · have : cfg.vikja = false := by simpa using hv
      simp [this, hV this]
  have hs : (if cfg.odal = true then s.assets.filter (fun a => !((s.doomed pid).map (·.id)).contains a.eid) else s.assets) =
      s.assets.filter (fun a => !((s.doomed pid).map (·.id)).contains a.eid) := by
    by_cases hv : cfg.odal = true
    · simp [hv]
    · have : cfg.odal = false := by simpa using hv
      simp [this, hO this]
  have hview : (s.ents.filter (fun e => !((s.doomed pid).map (·.id)).contains e.id)).map Entity.view =
      (s.ents.map Entity.view).filter (fun e => !((s.doomed pid).map (·.id)).contains e.id) := by
    rw [List.filter_map]; rfl
  simp only [Session.leave, Session.pic, Session.pids, View.dropAll, hents, ha, hs, hview, List.filter_nil,
    List.filter_map, Function.comp_def]

/-! ### joins -/

/-- **C01, newcomer.** With no flag set, a successful join hands the newcomer exactly the server's state of the
    session it enters (itself included): participants, entities, all components, and the modules' entity actions
    and asset instances. -/
theorem C01_newcomer (cfg : Cfg) (hf : cfg.flags = []) (s : Session) (p : Part) (rid ots : Nat) :
    inboxOf p.conn (joinDeliveries cfg s p rid ots) =
      [Out.joinResp rid s.id s.uuid p.pid, Out.sessionState s.pids (s.ents.map Entity.view) s.comps]
        ++ inboxOf p.conn (s.bcast p.pid (.joinBcast ots p.pid))
        ++ (if cfg.vikja then [Out.vikjaState s.actions] else []) ++ (if cfg.odal then [Out.odalState s.assets] else []) := by
  simp only [joinDeliveries, gate_off hf, inbox_append, inboxOf, List.filterMap_cons, beq_self_eq_true, if_true,
    List.filterMap_nil, List.cons_append, List.nil_append, List.append_assoc]
  cases cfg.vikja <;> cases cfg.odal <;> simp

/-- **C01, a join seen by the others.** Every member of the session that is joined is sent the join broadcast, can
    apply it (the participant id is new), and ends up with the server's state after the join. -/
theorem C01_join_others (cfg : Cfg) (hf : cfg.flags = []) (s : Session) (hM : s.MembersOK) (c rid ots : Nat)
    (hc : c ∉ s.parts.map (·.conn)) (q : Part) (hq : q ∈ s.parts) :
    s.pic.applyAllCore (inboxOf q.conn (joinDeliveries cfg (s.addPart c).1 (s.addPart c).2 rid ots)) = some (s.addPart c).1.pic := by
  have hqc : c ≠ q.conn := fun h => hc (List.mem_map.mpr ⟨q, hq, h.symm⟩)
  have hpid : q.pid ≠ s.pidCur + 1 := by have := (hM.pid_pos q hq).2; omega
  have hnodup : (((s.addPart c).1).parts.map (·.conn)).Nodup := by
    simp only [Session.addPart, List.map_append, List.map_cons, List.map_nil]
    rw [List.nodup_append]
    refine ⟨hM.conns_nodup, by simp, ?_⟩
    intro a ha b hb hab
    simp at hb; subst hb; subst hab; exact hc ha
  have hq' : q ∈ (s.addPart c).1.parts := by simp [Session.addPart, hq]
  simp only [joinDeliveries, gate_off hf, inbox_append]
  have h1 : inboxOf q.conn [((s.addPart c).2.conn, Out.joinResp rid (s.addPart c).1.id (s.addPart c).1.uuid (s.addPart c).2.pid),
      ((s.addPart c).2.conn, Out.sessionState (s.addPart c).1.pids ((s.addPart c).1.ents.map Entity.view) (s.addPart c).1.comps)] = [] := by
    rw [inbox_cons_ne (by simpa [Session.addPart] using hqc), inbox_cons_ne (by simpa [Session.addPart] using hqc)]; rfl
  have h2 : inboxOf q.conn ((s.addPart c).1.bcast (s.addPart c).2.pid (.joinBcast ots (s.addPart c).2.pid)) =
      [Out.joinBcast ots (s.pidCur + 1)] := by
    simp only [Session.bcast]
    exact inbox_bcast_parts hnodup hq' _ _ hpid
  have h3 : inboxOf q.conn (if cfg.vikja = true then [((s.addPart c).2.conn, Out.vikjaState (s.addPart c).1.actions)] else []) = [] := by
    split
    · rw [inbox_cons_ne (by simpa [Session.addPart] using hqc)]; rfl
    · rfl
  have h4 : inboxOf q.conn (if cfg.odal = true then [((s.addPart c).2.conn, Out.odalState (s.addPart c).1.assets)] else []) = [] := by
    split
    · rw [inbox_cons_ne (by simpa [Session.addPart] using hqc)]; rfl
    · rfl
  rw [h1, h2, h3, h4]
  have hfresh : s.pic.pids.contains (s.pidCur + 1) = false := by
    simp only [Session.pic, Session.pids, List.contains_eq_mem, List.mem_map, decide_eq_false_iff_not, not_exists, not_and]
    intro x hx hxe
    have := (hM.pid_pos x hx).2; omega
  simp only [List.nil_append, List.append_nil, View.applyAllCore, View.applyCore, hfresh, Bool.false_eq_true, if_false, Option.bind_some]
  simp [Session.pic, Session.pids, Session.addPart]

/-! ### the component part does not converge (finding F13) -/

/-- A two-member session with a registered component type and one entity, nobody subscribed. -/
def gapSession : Session :=
  { id := 1, uuid := 1, pidCur := 2, parts := [⟨1, 1⟩, ⟨2, 2⟩], eidCur := 1,
    ents := [{ id := 1, owner := 1, persist := false, flag := 0, pose := 0 }], tidCur := 1, types := [(1, "t")] }

/-- **The component gap.**  Participant 1 adds a component while its type has no subscriber: nobody is told.
    Participant 2 then subscribes to the type and participant 1 updates the component: participant 2, whose view
    was the server's state when the history began, is sent an update of a component it was never told about and
    cannot apply it.  (The same history fails on the real server: corpus/F13-component-added-without-subscribers.hist.) -/
theorem C01_component_gap :
    let cfg : Cfg := {}
    let s0 := gapSession
    let r1 := s0.handle cfg ⟨1, 1⟩ (.compAdd 5 105 1 1 [1]) 0
    let r2 := r1.1.handle cfg ⟨2, 2⟩ (.subscribe 6 1) 0
    let r3 := r2.1.handle cfg ⟨1, 1⟩ (.compUpdate 107 1 1 [2]) 0
    ({ s0.pic with comps := s0.comps } : View).applyAll (inboxOf 2 (r1.2.1 ++ r2.2.1 ++ r3.2.1)) = none ∧
    inboxOf 2 (r1.2.1 ++ r2.2.1 ++ r3.2.1) = [Out.subscribeResp 6, Out.compUpdateBcast 107 ⟨1, 1, [2]⟩] := by
  decide

end Hagall
