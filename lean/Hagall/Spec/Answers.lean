/-
  Specification vocabulary for answers (C04): which server-to-client messages answer a request, and the
  protocol's decision table - the answer each request must get from a joined participant's session.
-/
import Hagall.Model.Server
namespace Hagall

/-- the request id a message answers, if it is an answer -/
def rids (o : Out) : Option Nat :=
  match o with
  | .error r _ | .pingResp r | .joinResp r .. | .entityAddResp r _ | .entityDeleteResp r | .typeAddResp r _
  | .typeNameResp r _ | .typeIdResp r _ | .compAddResp r | .compDeleteResp r | .compListResp r _
  | .subscribeResp r | .unsubscribeResp r | .receiptResp r | .actionResp r | .assetAddResp r _
  | .groundPlaneResp r | .regionResp r | .debugInfoResp r | .latencyResp r .. => some r
  | _ => none

/-- the answers among a delivery list that go to connection `c` -/
def answersTo (c : Nat) (ds : List Delivery) : List Out :=
  (ds.filter fun d => d.1 == c && (rids d.2).isSome).map (·.2)

/-- The protocol's decision table: the one answer a request of a joined participant must get, written as
    a decision list in validation order (bad request, not found, unauthorized, conflict, success).
    `none`: the request kind has no immediate answer (updates, custom messages, an accepted latency start,
    ping responses) or belongs to a module that is not loaded. -/
def expectedAnswer (cfg : Cfg) (s : Session) (p : Part) : Req → Option Out
  | .entityAdd rid _ _ _ _ => some (.entityAddResp rid (s.eidCur + 1))
  | .entityDelete rid _ eid =>
    match s.findEnt eid with
    | none => some (.error rid ecNotFound)
    | some e => if e.owner != p.pid then some (.error rid ecUnauthorized) else some (.entityDeleteResp rid)
  | .typeAdd rid name =>
    if name == "" then some (.error rid ecBadRequest)
    else match s.typeId name with
      | some t => some (.typeAddResp rid t)
      | none => some (.typeAddResp rid (s.tidCur + 1))
  | .typeGetName rid tid =>
    if tid == 0 then some (.error rid ecBadRequest)
    else match s.typeName tid with
      | some n => some (.typeNameResp rid n)
      | none => some (.error rid ecNotFound)
  | .typeGetId rid name =>
    if name == "" then some (.error rid ecBadRequest)
    else match s.typeId name with
      | some t => some (.typeIdResp rid t)
      | none => some (.error rid ecNotFound)
  | .compAdd rid _ tid eid _ =>
    if tid == 0 || eid == 0 then some (.error rid ecBadRequest)
    else match s.findEnt eid with
      | none => some (.error rid ecNotFound)
      | some e =>
        if (s.typeName tid).isNone then some (.error rid ecNotFound)
        else if (s.findComp tid e.id).isSome then some (.error rid ecConflict)
        else some (.compAddResp rid)
  | .compDelete rid _ tid eid =>
    if tid == 0 || eid == 0 then some (.error rid ecBadRequest)
    else match s.findEnt eid with
      | none => some (.error rid ecNotFound)
      | some e => if (s.findComp tid e.id).isNone then some (.error rid ecNotFound) else some (.compDeleteResp rid)
  | .compList rid tid =>
    if tid == 0 then some (.error rid ecBadRequest) else some (.compListResp rid (s.comps.filter (·.tid == tid)))
  | .subscribe rid tid =>
    if tid == 0 then some (.error rid ecBadRequest)
    else if (s.typeName tid).isNone then some (.error rid ecNotFound) else some (.subscribeResp rid)
  | .unsubscribe rid tid =>
    if tid == 0 then some (.error rid ecBadRequest) else some (.unsubscribeResp rid)
  | .signedLatency rid iter wallet =>
    if iter < latencyMinIter || iter > latencyMaxIter then some (.error rid ecBadRequest)
    else if wallet == "" then some (.error rid ecBadRequest) else none
  | .action rid _ act =>
    if !cfg.vikja then none
    else match act with
      | none => some (.error rid ecBadRequest)
      | some a => if s.actionOk a then some (.actionResp rid) else some (.error rid ecBadRequest)
  | .assetAdd rid _ assetId eid =>
    if !cfg.odal then none
    else if assetId == "" then some (.error rid ecBadRequest)
    else match s.findEnt eid with
      | none => some (.error rid ecNotFound)
      | some e => if e.owner != p.pid then some (.error rid ecUnauthorized) else some (.assetAddResp rid (s.assetCur + 1))
  | .groundPlane rid _ => if cfg.dagaz then some (.groundPlaneResp rid) else none
  | .region rid _ => if cfg.dagaz then some (.regionResp rid) else none
  | .debugInfo rid => if cfg.dagaz then some (.debugInfoResp rid) else none
  | _ => none

end Hagall
