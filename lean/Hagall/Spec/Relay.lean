/-
  Specification vocabulary for relays (C02, C13, C14, C16): which messages are relays of a change,
  and what "relayed exactly once to every other member" means for the deliveries of one step.
-/
import Hagall.Proofs.Basic
namespace Hagall

/-- server-to-client messages that relay a participant's change to the other members -/
def Out.isRelay : Out → Bool
  | .joinBcast .. | .leaveBcast .. | .entityAddBcast .. | .entityDeleteBcast .. | .poseBcast ..
  | .customBcast .. | .compAddBcast .. | .compDeleteBcast .. | .compUpdateBcast ..
  | .actionBcast .. | .assetAddBcast .. => true
  | _ => false

/-- `ds` carries `m` exactly once to every participant of `s` other than `sender`, to the sender never,
    and every copy of `m` in `ds` is addressed to such a participant. -/
def RelayedOnce (s : Session) (sender : Nat) (m : Out) (ds : List Delivery) : Prop :=
  (∀ q ∈ s.parts, countTo q.conn m ds = if q.pid ≠ sender then 1 else 0) ∧
  (∀ d ∈ ds, d.2 = m → ∃ q ∈ s.parts, q.pid ≠ sender ∧ d.1 = q.conn)

/-- no relay at all among the deliveries -/
def NoRelay (ds : List Delivery) : Prop := ∀ d ∈ ds, d.2.isRelay = false

/-- the only relay among the deliveries is `m` -/
def OnlyRelay (m : Out) (ds : List Delivery) : Prop := ∀ d ∈ ds, d.2.isRelay = true → d.2 = m

theorem relayedOnce_resp_bcast (s : Session) (hc : (s.parts.map (·.conn)).Nodup) (sender : Nat) (m : Out)
    (resp : Delivery) (hresp : resp.2 ≠ m) : RelayedOnce s sender m (resp :: s.bcast sender m) := by
  constructor
  · intro q hq
    have h0 : resp ≠ (q.conn, m) := fun h => hresp (by rw [h])
    rw [countTo_cons, s.count_bcast hc sender m q hq]
    simp [h0]
  · intro d hd hm
    rcases List.mem_cons.mp hd with rfl | hd'
    · exact absurd hm hresp
    · exact (Session.mem_bcast hd').2

theorem relayedOnce_bcast (s : Session) (hc : (s.parts.map (·.conn)).Nodup) (sender : Nat) (m : Out) :
    RelayedOnce s sender m (s.bcast sender m) := by
  constructor
  · intro q hq; exact s.count_bcast hc sender m q hq
  · intro d hd _; exact (Session.mem_bcast hd).2

theorem relayedOnce_bcast_resp (s : Session) (hc : (s.parts.map (·.conn)).Nodup) (sender : Nat) (m : Out)
    (resp : Delivery) (hresp : resp.2 ≠ m) : RelayedOnce s sender m (s.bcast sender m ++ [resp]) := by
  constructor
  · intro q hq
    have h0 : resp ≠ (q.conn, m) := fun h => hresp (by rw [h])
    rw [countTo_append, s.count_bcast hc sender m q hq, countTo_cons]
    simp [h0]
  · intro d hd hm
    rcases List.mem_append.mp hd with hd' | hd'
    · exact (Session.mem_bcast hd').2
    · simp only [List.mem_singleton] at hd'
      subst hd'; exact absurd hm hresp

theorem onlyRelay_resp_bcast (s : Session) (sender : Nat) (m : Out) (resp : Delivery) (hr : resp.2.isRelay = false) :
    OnlyRelay m (resp :: s.bcast sender m) := by
  intro d hd hrel
  rcases List.mem_cons.mp hd with rfl | hd'
  · rw [hr] at hrel; cases hrel
  · exact (Session.mem_bcast hd').1

/-- `RelayedOnce` only looks at the participant list -/
theorem RelayedOnce.of_parts_eq {s s' : Session} (h : s'.parts = s.parts) {sender : Nat} {m : Out} {ds : List Delivery}
    (hr : RelayedOnce s' sender m ds) : RelayedOnce s sender m ds := by
  unfold RelayedOnce at *; rw [h] at hr; exact hr

end Hagall
