/-
  Executable property predicates evaluated on *implementation* traces.

  The monitor keeps a reference picture of every session built only from what the protocol lets an
  observer know (successful responses, requests, departures) and judges each event of the trace against
  the property statements:
    C02/C13/C14/C16  who must receive which relay, exactly once, and who must not;
    C01/C06/C12/C16  every state handed out (session state, module states, list responses) equals the
                     reference picture;
    C03              nothing is delivered outside the actor's session(s);
    C04              every request with a request id is answered exactly once, to the requester only;
    C05              owner-only guards; C07 registry = non-empty sessions, gauge; C10 freshness of ids.
  The monitors never consult the Lean model `step`.
-/
import Hagall.Spec.Trace
import Hagall.Spec.Answers
namespace Hagall.Spec
open Hagall

structure Violation where
  prop : String
  cause : String
  event : Nat
  detail : String
deriving Repr, Inhabited

/-- reference picture of one session -/
structure MSess where
  sid : Nat
  uuid : Nat
  members : List (Nat × Nat) := []     -- (pid, conn)
  ents : List Entity := []
  comps : List Comp := []
  types : List (Nat × String) := []
  subs : List (Nat × Nat) := []
  actions : List Action := []
  assets : List Asset := []
  pidsEver : List Nat := []
  eidsEver : List Nat := []
  assetIdsEver : List Nat := []
deriving Repr, Inhabited

/-- the signed-latency measurement a connection has in progress (C18) -/
structure LatM where
  rid : Nat
  n : Nat
  wallet : String
  uuid : Nat
  issued : List Nat := []
  answered : List Nat := []
  done : Bool := false
deriving Repr, Inhabited

structure MState where
  cfg : Cfg
  lats : List (Nat × LatM) := []
  planes : List (Nat × Nat) := []      -- session uuid ↦ largest ground-plane count reported so far (C20)
  regions : List ((Nat × String) × String × Nat) := []   -- (session uuid, box) ↦ (answer, asker) since the session's last accepted sample (C20)
  sessions : List MSess := []
  ev : Nat := 0
  viol : Array Violation := #[]
  uuidsEver : List Nat := []
  poseSent : List ((Nat × Nat) × List Nat) := []          -- (connection, entity) ↦ origin timestamps of the pose updates received from it
  poseSeen : List ((Nat × Nat × Nat) × Nat) := []         -- (observer, sender, entity) ↦ how far into that list the observer has been relayed
  parked : List ((Nat × Nat) × Nat) := []                 -- (connection, origin timestamp) of an update waiting for its frame ↦ join requests the connection had sent before it
  joinsSent : List (Nat × Nat) := []                      -- connection ↦ join requests received from it
  joinsDone : List (Nat × Nat) := []                      -- connection ↦ join requests of it handled
  seq : Nat := 0                                          -- updates received so far by the schedulers
  held : List ((Nat × Nat × Nat) × Nat × Nat) := []       -- (connection, kind (0 pose, type id + 1 component), entity) waiting for its frame ↦ (first, last) arrival
  overtaken : List ((Nat × Nat × Nat) × List Nat) := []   -- a waiting update ↦ the connections already relayed a later update of the same entity
deriving Inhabited

def flat (s : String) : String := s.replace "\n" " "

def MState.flag (m : MState) (v : Violation) : MState := { m with viol := m.viol.push v }
def MState.bad (m : MState) (prop cause detail : String) : MState := m.flag ⟨prop, cause, m.ev, detail⟩

def MState.whereIs (m : MState) (c : Nat) : Option (MSess × Nat) :=
  m.sessions.findSome? fun s => (s.members.find? (·.2 == c)).map fun p => (s, p.1)

def MState.put (m : MState) (s : MSess) : MState :=
  if m.sessions.any (·.uuid == s.uuid) then
    { m with sessions := m.sessions.map fun x => if x.uuid == s.uuid then s else x }
  else { m with sessions := m.sessions ++ [s] }

def keep (cfg : Cfg) (o : Out) : Bool :=
  match o.flagClass with
  | some f => !cfg.flags.contains f
  | none => true

/-- expected relay of `msg` to every member of `s` but `pid` -/
def MSess.relay (s : MSess) (pid : Nat) (msg : Out) : List Delivery :=
  (s.members.filter (·.1 != pid)).map fun p => (p.2, msg)

def sameMultiset (a b : List Out) : Bool :=
  a.length == b.length && a.all (fun x => (a.filter (·.sameAs x)).length == (b.filter (·.sameAs x)).length)

/-- compare what the other connections received with what the property says they must receive
    (exactly these, exactly once each, nobody else) -/
def MState.checkOthers (m : MState) (c : Nat) (ds expected : List Delivery) (props : List String) (cause : String) : MState :=
  let actual := ds.filter (·.1 != c)
  let expected := expected.filter fun d => keep m.cfg d.2 && d.1 != c
  let conns := ((actual ++ expected).map (·.1)).eraseDups
  match conns.find? fun k => !sameMultiset (inboxOf k actual) (inboxOf k expected) with
  | none => m
  | some k =>
    let det := (flat s!"conn {k}: expected {reprStr (inboxOf k expected)} got {reprStr (inboxOf k actual)}")
    props.foldl (fun m p => m.bad p cause det) m

def MSess.findEnt (s : MSess) (eid : Nat) : Option Entity := s.ents.find? (·.id == eid)
def MSess.hasComp (s : MSess) (tid eid : Nat) : Bool := s.comps.any fun c => c.tid == tid && c.eid == eid
def MSess.typeReg (s : MSess) (tid : Nat) : Bool := s.types.any (·.1 == tid)
def MSess.subsOf (s : MSess) (tid : Nat) : List Nat := (s.subs.filter (·.1 == tid)).map (·.2)

def MSess.dropEntity (s : MSess) (eid : Nat) : MSess :=
  { s with ents := s.ents.filter (·.id != eid), comps := s.comps.filter (·.eid != eid),
           actions := s.actions.filter (·.eid != eid), assets := s.assets.filter (·.eid != eid) }

/-- a departure of connection `c` (participant `pid` of `s`): what the others must be told, and the
    reference picture afterwards -/
def MState.depart (m : MState) (s : MSess) (pid : Nat) : MState × List Delivery :=
  let dead := s.ents.filter fun e => e.owner == pid && !e.persist
  let s1 := dead.foldl (fun s e => s.dropEntity e.id) s
  -- modules only clean up when loaded
  let s1 := { s1 with actions := if m.cfg.vikja then s1.actions else s.actions,
                      assets := if m.cfg.odal then s1.assets else s.assets,
                      subs := s.subs.filter (·.2 != pid) }
  let exp := (dead.flatMap fun e => s.relay pid (.entityDeleteBcast none e.id)) ++ s.relay pid (.leaveBcast pid)
  let s2 := { s1 with members := s.members.filter (·.1 != pid) }
  let m := if s2.members.isEmpty then { m with sessions := m.sessions.filter (·.uuid != s.uuid) } else m.put s2
  (m, exp)

def setAction (l : List Action) (a : Action) : List Action :=
  if l.any (fun x => x.eid == a.eid && x.name == a.name) then l.map fun x => if x.eid == a.eid && x.name == a.name then a else x
  else l ++ [a]

def setAsset (l : List Asset) (a : Asset) : List Asset :=
  if l.any (·.eid == a.eid) then l.map fun x => if x.eid == a.eid then a else x else l ++ [a]

def answerCode (own : List Out) (rid : Nat) : Option Nat :=
  own.findSome? fun o => match o with | .error r code => if r == rid then some code else none | _ => none

/-- the requester's answer must be the given error code (C04) -/
def MState.expectError (m : MState) (own : List Out) (rid code : Nat) (props : List String) (cause : String) : MState :=
  if own.any (fun o => o == .error rid code) then m
  else props.foldl (fun m p => m.bad p cause (flat s!"expected error {code} for request {rid}, got {reprStr own}")) m

/-- the monitor step for a handled request -/
def MState.onRequest (m : MState) (c : Nat) (r : Req) (ds : List Delivery) (outcome : Outcome) : MState :=
  let own := inboxOf c ds
  let cfg := m.cfg
  -- C04: exactly one answer carrying the request id, to the requester only
  let reqRid : Option Nat := match r with
    | .ping rid | .join rid .. | .entityAdd rid .. | .entityDelete rid .. | .typeAdd rid _ | .typeGetName rid _
    | .typeGetId rid _ | .compAdd rid .. | .compDelete rid .. | .compList rid _ | .subscribe rid _
    | .unsubscribe rid _ | .receipt rid .. => some rid
    | .action rid .. => if cfg.vikja then some rid else none
    | .assetAdd rid .. => if cfg.odal then some rid else none
    | .groundPlane rid _ | .region rid _ | .debugInfo rid => if cfg.dagaz then some rid else none
    | _ => none
  let joined := (m.whereIs c).isSome
  let m := match reqRid with
    | none => m
    | some rid =>
      let needsSession := match r with | .ping .. | .join .. | .receipt .. => false | _ => true
      let mine := (own.filter fun o => rids o == some rid).length
      let theirs := (ds.filter fun (d : Delivery) => d.1 != c && (rids d.2).isSome).length
      let m := if theirs != 0 then m.bad "C04" "answer-to-third-party" (flat s!"{reprStr (ds.filter fun (d : Delivery) => d.1 != c && (rids d.2).isSome)}") else m
      if (joined || !needsSession) && mine != 1 && outcome == Outcome.ok then
        m.bad "C04" (if mine == 0 then "unanswered-request" else "answered-twice") (flat s!"request {reprStr r} answers {reprStr own}")
      else if !joined && needsSession && mine == 0 && outcome == Outcome.ok && (match r with | .action .. | .assetAdd .. | .groundPlane .. | .region .. | .debugInfo .. => false | _ => true) then
        -- a core request that needs a session, from a connection in none: error answer or the connection ends
        m.bad "C04" "session-less-request-executed" (flat s!"request {reprStr r} outcome ok, no answer")
      else m
  match m.whereIs c, r with
  /- ------------------------------------------------------------ join -/
  | me, .join rid ots _target =>
    match own.findSome? fun o => match o with | .joinResp r' sid uuid pid => if r' == rid then some (sid, uuid, pid) else none | _ => none with
    | some (sid, uuid, pid) =>
      -- leave the previous session first
      let (m, expLeave) := match me with
        | some (s0, p0) => m.depart s0 p0
        | none => (m, [])
      let (m, s) := match m.sessions.find? (·.uuid == uuid) with
        | some s =>
          let m := if s.sid != sid then m.bad "C07" "uuid-under-two-ids" s!"uuid {uuid} ids {s.sid} {sid}" else m
          (m, s)
        | none =>
          let m := if m.uuidsEver.contains uuid then m.bad "C07" "ended-session-rejoined" s!"uuid {uuid} was ended" else m
          let m := if m.sessions.any (·.sid == sid) then m.bad "C10" "session-id-shared" s!"id {sid} is live under another uuid" else m
          ({ m with uuidsEver := m.uuidsEver ++ [uuid] }, ({ sid, uuid } : MSess))
      let m := if s.pidsEver.contains pid then
          (m.bad "C10" "participant-id-reissued" s!"session {uuid} pid {pid}").bad "C05" "participant-id-reissued" s!"session {uuid} pid {pid}"
        else m
      let s' := { s with members := s.members ++ [(pid, c)], pidsEver := s.pidsEver ++ [pid] }
      -- the state handed to the newcomer must be the reference picture (C01; C06 for survivors; C12; C16)
      let m := match own.find? fun o => match o with | .sessionState .. => true | _ => false with
        | some (.sessionState ps es cs) =>
          let m := if !ps.isPerm (s'.members.map Prod.fst) then
              (m.bad "C01" "newcomer-participants" s!"handed {ps} reference {s'.members.map Prod.fst}").bad "C06" "newcomer-participants" s!"handed {ps} reference {s'.members.map Prod.fst}"
            else m
          let m := if !es.isPerm (s'.ents.map Entity.view) then
              let d := (flat s!"handed {reprStr es} reference {reprStr (s'.ents.map Entity.view)}")
              ((m.bad "C01" "newcomer-entities" d).bad "C06" "newcomer-entities" d).bad "C11" "newcomer-entities" d
            else m
          if !cs.isPerm s'.comps then
            let d := (flat s!"handed {reprStr cs} reference {reprStr s'.comps}")
            ((m.bad "C01" "newcomer-components" d).bad "C12" "newcomer-components" d).bad "C06" "newcomer-components" d
          else m
        | _ => if keep cfg (.sessionState [] [] []) then m.bad "C01" "no-session-state" "successful join without session state" else m
      let m := if cfg.vikja then
          match own.find? fun o => match o with | .vikjaState .. => true | _ => false with
          | some (.vikjaState acts) =>
            if !acts.isPerm s'.actions then
              let d := (flat s!"handed {reprStr acts} reference {reprStr s'.actions}")
              let m := ((m.bad "C16" "newcomer-actions" d).bad "C01" "newcomer-actions" d).bad "C06" "newcomer-actions" d
              -- an action this session never had but another session has: state crossed a session boundary
              if acts.any fun a => !s'.actions.contains a && m.sessions.any fun o => o.uuid != uuid && o.actions.contains a then
                m.bad "C03" "foreign-state-handed-to-newcomer" d
              else m
            else m
          | _ => m.bad "C16" "no-vikja-state" "successful join without vikja state"
        else m
      let m := if cfg.odal then
          match own.find? fun o => match o with | .odalState .. => true | _ => false with
          | some (.odalState as) =>
            if !as.isPerm s'.assets then
              let d := (flat s!"handed {reprStr as} reference {reprStr s'.assets}")
              let m := ((m.bad "C16" "newcomer-assets" d).bad "C01" "newcomer-assets" d).bad "C06" "newcomer-assets" d
              if as.any fun a => !s'.assets.contains a && m.sessions.any fun o => o.uuid != uuid && o.assets.contains a then
                m.bad "C03" "foreign-state-handed-to-newcomer" d
              else m
            else m
          | _ => m.bad "C16" "no-odal-state" "successful join without odal state"
        else m
      let m := (m.put s')
      -- a measurement that was still running when its participant moved on goes with the participant record: its request
      -- must be answered CONFLICT, like one given up for a new measurement (F37b, repaired in /repo 5ff46d6)
      let m := match m.lats.find? (·.1 == c) with
        | some (_, l) =>
          if !l.done && !(own.any fun o => o == Out.error l.rid ecConflict) then
            let d := s!"connection {c} switched sessions while its signed latency request {l.rid} was still being measured: that request is never answered"
            (m.bad "C04" "measurement-lost-on-switch" d).bad "C18" "measurement-lost-on-switch" d
          else m
        | none => m
      let m := { m with lats := m.lats.filter (·.1 != c) }
      m.checkOthers c ds (expLeave ++ s'.relay pid (.joinBcast ots pid)) ["C02", "C06"] "join-relay"
    | none =>
      -- a refused join changes nothing: nobody else hears of it, the requester stays where it was
      let m := match me with
        | some (s0, p0) =>
          if (ds.any fun d => d.1 != c && (d.2 == Out.leaveBcast p0)) then
            (m.depart s0 p0).1.bad "C04" "refused-join-left-session"
              (flat s!"join {reprStr r} refused but the participant left session {s0.uuid}")
          else m
        | none => m
      m.checkOthers c ds [] ["C02", "C04"] "refused-join-relayed"
  /- ------------------------------------------------------------ not joined -/
  | none, _ =>
    -- nothing a connection that is in no session sends may reach anybody (C03) or change anything
    if (ds.filter (·.1 != c)).isEmpty then m
    else (m.bad "C03" "delivery-from-outsider" (flat s!"{reprStr (ds.filter (·.1 != c))}")).bad "C04" "session-less-request-executed" (flat s!"{reprStr r}")
  /- ------------------------------------------------------------ joined -/
  | some (s, pid), .entityAdd rid ots persist flag pose =>
    match own.findSome? fun o => match o with | .entityAddResp r' eid => if r' == rid then some eid else none | _ => none with
    | some eid =>
      -- C11 too: a pose update still queued for the deleted entity would be applied to its namesake
      let m := if s.eidsEver.contains eid then
          (m.bad "C10" "entity-id-reissued" s!"session {s.uuid} entity {eid}").bad "C11" "entity-id-reissued"
            s!"session {s.uuid}: entity id {eid} is issued again after the entity that carried it was deleted - a pose update still queued for the old entity now moves the new one"
        else m
      let e : Entity := ⟨eid, pid, persist, flag, pose.getD 0⟩
      let s' := { s with ents := s.ents ++ [e], eidsEver := s.eidsEver ++ [eid] }
      (m.put s').checkOthers c ds (s.relay pid (.entityAddBcast ots e.view)) ["C02"] "entity-add-relay"
    | none => m.checkOthers c ds [] ["C02"] "refused-request-relayed"
  | some (s, pid), .entityDelete rid ots eid =>
    let accepted := own.any (· == .entityDeleteResp rid)
    match s.findEnt eid with
    | none =>
      let m := if accepted then m.bad "C04" "delete-of-unknown-accepted" s!"entity {eid}" else m.expectError own rid ecNotFound ["C04"] "wrong-answer"
      m.checkOthers c ds [] ["C02", "C05"] "refused-request-relayed"
    | some e =>
      if e.owner != pid then
        let m := if accepted then m.bad "C05" "non-owner-delete-accepted" s!"entity {eid} owner {e.owner} requester {pid}"
                 else m.expectError own rid ecUnauthorized ["C05", "C04"] "wrong-answer"
        m.checkOthers c ds [] ["C02", "C05"] "refused-request-relayed"
      else if accepted then
        (m.put (s.dropEntity eid)).checkOthers c ds (s.relay pid (.entityDeleteBcast (some ots) eid)) ["C02"] "entity-delete-relay"
      else m.bad "C04" "owner-delete-refused" (flat s!"entity {eid} answer {reprStr own}")
  | some (s, pid), .updatePose ots eid pose =>
    match s.findEnt eid, pose with
    | some e, some v =>
      if e.owner == pid then
        let s' := { s with ents := s.ents.map fun x => if x.id == eid then { x with pose := v } else x }
        (m.put s').checkOthers c ds (s.relay pid (.poseBcast ots eid v)) ["C02", "C11"] "pose-relay"
      else (m.checkOthers c ds [] ["C05", "C11"] "foreign-pose-update-relayed")
    | _, _ => m.checkOthers c ds [] ["C05", "C11"] "dropped-pose-update-relayed"
  | some (s, pid), .custom ots pids body =>
    if body.length > 10240 then
      let m := if own.any (fun o => match o with | .error _ 413 => true | _ => false) then m else m.bad "C14" "too-large-not-refused" s!"{body.length} bytes"
      m.checkOthers c ds [] ["C14", "C02"] "too-large-delivered"
    else
      let msg := Out.customBcast ots pid body
      let targets := if pids.isEmpty then s.members.filter (·.1 != pid)
                     else s.members.filter fun p => p.1 != pid && pids.contains p.1
      let m := if own.any (fun o => match o with | .error _ 413 => true | _ => false) then m.bad "C14" "within-limit-refused" s!"{body.length} bytes" else m
      m.checkOthers c ds (targets.map fun p => (p.2, msg)) (if pids.isEmpty then ["C14", "C02"] else ["C14"]) "custom-delivery"
  | some (s, _pid), .typeAdd rid name =>
    if name == "" then m.expectError own rid ecBadRequest ["C04"] "wrong-answer" else
    match own.findSome? fun o => match o with | .typeAddResp r' t => if r' == rid then some t else none | _ => none with
    | some t =>
      match s.types.find? (·.2 == name) with
      | some (t0, _) => if t0 != t then (m.bad "C12" "type-registration-not-idempotent" s!"{name}: {t0} then {t}").bad "C10" "type-name-two-ids" s!"{name}: {t0} then {t}" else m
      | none =>
        let m := if s.types.any (·.1 == t) then (m.bad "C10" "type-id-two-names" s!"id {t}").bad "C12" "type-id-two-names" s!"id {t}" else m
        m.put { s with types := s.types ++ [(t, name)] }
    | none => m
  | some (s, _pid), .typeGetName rid tid =>
    if tid == 0 then m.expectError own rid ecBadRequest ["C04"] "wrong-answer" else
    match s.types.find? (·.1 == tid) with
    | some (_, n) => if own.any (· == .typeNameResp rid n) then m else (m.bad "C12" "type-name-lookup" s!"id {tid} expected {n} got {reprStr own}").bad "C10" "type-name-lookup" s!"id {tid}"
    | none => m.expectError own rid ecNotFound ["C12", "C04"] "wrong-answer"
  | some (s, _pid), .typeGetId rid name =>
    if name == "" then m.expectError own rid ecBadRequest ["C04"] "wrong-answer" else
    match s.types.find? (·.2 == name) with
    | some (t, _) => if own.any (· == .typeIdResp rid t) then m else (m.bad "C12" "type-id-lookup" s!"name {name} expected {t} got {reprStr own}").bad "C10" "type-id-lookup" s!"name {name}"
    | none => m.expectError own rid ecNotFound ["C12", "C04"] "wrong-answer"
  | some (s, pid), .compAdd rid ots tid eid data =>
    let accepted := own.any (· == .compAddResp rid)
    if tid == 0 || eid == 0 then (m.expectError own rid ecBadRequest ["C04"] "wrong-answer").checkOthers c ds [] ["C13"] "refused-request-relayed" else
    let okToAdd := (s.findEnt eid).isSome && s.typeReg tid && !s.hasComp tid eid
    if accepted && !okToAdd then
      m.bad "C12" "component-add-accepted" s!"type {tid} entity {eid}: entity exists {(s.findEnt eid).isSome} type registered {s.typeReg tid} present {s.hasComp tid eid}"
    else if !accepted && okToAdd then m.bad "C12" "component-add-refused" (flat s!"type {tid} entity {eid} answer {reprStr own}")
    else if accepted then
      let cmp : Comp := ⟨tid, eid, data⟩
      let exp := if (s.subsOf tid).isEmpty then [] else s.relay pid (.compAddBcast ots cmp)
      (m.put { s with comps := s.comps ++ [cmp] }).checkOthers c ds exp ["C13"] "component-add-notify"
    else
      let code := if (s.findEnt eid).isNone || !s.typeReg tid then ecNotFound else ecConflict
      (m.expectError own rid code ["C12", "C04"] "wrong-answer").checkOthers c ds [] ["C13"] "refused-request-relayed"
  | some (s, pid), .compDelete rid ots tid eid =>
    let accepted := own.any (· == .compDeleteResp rid)
    if tid == 0 || eid == 0 then (m.expectError own rid ecBadRequest ["C04"] "wrong-answer").checkOthers c ds [] ["C13"] "refused-request-relayed" else
    let present := (s.findEnt eid).isSome && s.hasComp tid eid
    if accepted && !present then (m.bad "C12" "absent-component-deleted" s!"type {tid} entity {eid}").checkOthers c ds [] ["C13", "C12"] "absent-component-delete-relayed"
    else if !accepted && present then m.bad "C12" "component-delete-refused" (flat s!"type {tid} entity {eid} answer {reprStr own}")
    else if accepted then
      let exp := if (s.subsOf tid).isEmpty then [] else s.relay pid (.compDeleteBcast ots tid eid)
      (m.put { s with comps := s.comps.filter fun x => !(x.tid == tid && x.eid == eid) }).checkOthers c ds exp ["C13"] "component-delete-notify"
    else (m.expectError own rid ecNotFound ["C12", "C04"] "wrong-answer").checkOthers c ds [] ["C13"] "refused-request-relayed"
  | some (s, pid), .compUpdate ots tid eid data =>
    if tid != 0 && eid != 0 && (s.findEnt eid).isSome && s.hasComp tid eid then
      let cmp : Comp := ⟨tid, eid, data⟩
      let targets := s.members.filter fun p => p.1 != pid && (s.subsOf tid).contains p.1
      (m.put { s with comps := s.comps.map fun x => if x.tid == tid && x.eid == eid then cmp else x }).checkOthers c ds
        (targets.map fun p => (p.2, Out.compUpdateBcast ots cmp)) ["C13"] "component-update-notify"
    else m.checkOthers c ds [] ["C12", "C13"] "absent-component-update-relayed"
  | some (s, _pid), .compList rid tid =>
    if tid == 0 then m.expectError own rid ecBadRequest ["C04"] "wrong-answer" else
    match own.findSome? fun o => match o with | .compListResp r' l => if r' == rid then some l else none | _ => none with
    | some l => if l.isPerm (s.comps.filter (·.tid == tid)) then m
                else (m.bad "C12" "list-mismatch" (flat s!"type {tid}: listed {reprStr l} reference {reprStr (s.comps.filter (·.tid == tid))}")).bad "C01" "list-mismatch" s!"type {tid}"
    | none => m
  | some (s, pid), .subscribe rid tid =>
    if tid == 0 then m.expectError own rid ecBadRequest ["C04"] "wrong-answer" else
    if own.any (· == .subscribeResp rid) then
      if s.typeReg tid then m.put { s with subs := if s.subs.contains (tid, pid) then s.subs else s.subs ++ [(tid, pid)] }
      else m.bad "C13" "subscribe-unregistered-accepted" s!"type {tid}"
    else if s.typeReg tid then m.bad "C13" "subscribe-refused" (flat s!"type {tid} answer {reprStr own}")
    else m.expectError own rid ecNotFound ["C13", "C04"] "wrong-answer"
  | some (s, pid), .unsubscribe rid tid =>
    if tid == 0 then m.expectError own rid ecBadRequest ["C04"] "wrong-answer" else
    m.put { s with subs := s.subs.filter (· != (tid, pid)) }
  | some (s, pid), .action rid ots act =>
    if !cfg.vikja then m.checkOthers c ds [] ["C16"] "action-without-module" else
    let accepted := own.any (· == .actionResp rid)
    match act with
    | none => (m.expectError own rid ecBadRequest ["C16", "C04"] "wrong-answer").checkOthers c ds [] ["C02", "C16"] "refused-request-relayed"
    | some a =>
      let older := match s.actions.find? (fun x => x.eid == a.eid && x.name == a.name), a.ts with
        | some old, some t => (match old.ts with | some t0 => t.before t0 | none => false)
        | _, _ => false
      let ok := a.name != "" && a.ts.isSome && (s.findEnt a.eid).isSome && !older
      if accepted && !ok then (m.bad "C16" (if older then "older-action-accepted" else "invalid-action-accepted") (flat s!"{reprStr a}"))
      else if !accepted && ok then m.bad "C16" "newer-action-refused" (flat s!"{reprStr a} answer {reprStr own}")
      else if accepted then
        (m.put { s with actions := setAction s.actions a }).checkOthers c ds (s.relay pid (.actionBcast ots a)) ["C02", "C16"] "action-relay"
      else (m.expectError own rid ecBadRequest ["C16", "C04"] "wrong-answer").checkOthers c ds [] ["C02", "C16"] "refused-request-relayed"
  | some (s, pid), .assetAdd rid ots assetId eid =>
    if !cfg.odal then m.checkOthers c ds [] ["C16"] "asset-without-module" else
    match own.findSome? fun o => match o with | .assetAddResp r' aid => if r' == rid then some aid else none | _ => none with
    | some aid =>
      let m := if s.assetIdsEver.contains aid then (m.bad "C10" "asset-id-reissued" s!"asset instance {aid}").bad "C16" "asset-id-reissued" s!"asset instance {aid}" else m
      match s.findEnt eid with
      | none => m.bad "C16" "asset-on-unknown-entity" s!"entity {eid}"
      | some e =>
        let m := if e.owner != pid then m.bad "C05" "non-owner-asset-accepted" s!"entity {eid} owner {e.owner} requester {pid}" else m
        let m := if assetId == "" then m.bad "C16" "empty-asset-accepted" "" else m
        let a : Asset := ⟨aid, assetId, pid, eid⟩
        (m.put { s with assets := setAsset s.assets a, assetIdsEver := s.assetIdsEver ++ [aid] }).checkOthers c ds
          (s.relay pid (.assetAddBcast ots a)) ["C02", "C16"] "asset-relay"
    | none =>
      let m := if assetId == "" then m.expectError own rid ecBadRequest ["C16", "C04"] "wrong-answer"
        else match s.findEnt eid with
          | none => m.expectError own rid ecNotFound ["C16", "C04"] "wrong-answer"
          | some e => if e.owner != pid then m.expectError own rid ecUnauthorized ["C05", "C04"] "wrong-answer"
                      else m.bad "C16" "asset-add-refused" (flat s!"entity {eid} answer {reprStr own}")
      m.checkOthers c ds [] ["C02", "C05", "C16"] "refused-request-relayed"
  | some (s, _pid), .signedLatency rid iter wallet =>
    let m := m.checkOthers c ds [] ["C03"] "unexpected-relay"
    let pings := own.filterMap fun o => match o with | .pingReq id => some id | _ => none
    if 3 ≤ iter && iter ≤ 50 && wallet != "" then
      -- a measurement given up for this one is answered (CONFLICT), exactly when one was still running
      let running := match m.lats.find? (·.1 == c) with | some (_, l) => if l.done then none else some l.rid | none => none
      let told := own.filterMap fun o => match o with | .error r code => if code == ecConflict then some r else none | _ => none
      let m := match running with
        | some old => if told == [old] then m else
            (m.bad "C04" "abandoned-measurement-unanswered" (flat s!"request {old} was given up for {rid}; answers {reprStr own}")).bad "C18" "abandoned-measurement-unanswered" (flat s!"request {old} was given up for {rid}; answers {reprStr own}")
        | none => if told.isEmpty then m else m.bad "C18" "conflict-without-measurement" (flat s!"{reprStr own}")
      match pings with
      | [id] => { m with lats := (m.lats.filter (·.1 != c)) ++ [(c, { rid, n := iter, wallet, uuid := s.uuid, issued := [id] })] }
      | _ => m.bad "C18" "measurement-not-started" (flat s!"valid request {reprStr r} answered {reprStr own}")
    else
      let m := if pings.isEmpty then m else m.bad "C18" "invalid-measurement-started" (flat s!"{reprStr r}")
      m.expectError own rid ecBadRequest ["C18", "C04"] "wrong-answer"
  | some (_s, _pid), .pingResp id =>
    let m := m.checkOthers c ds [] ["C03"] "unexpected-relay"
    let pings := own.filterMap fun o => match o with | .pingReq x => some x | _ => none
    let final := own.findSome? fun o => match o with | .latencyResp r' n ids u w => some (r', n, ids, u, w) | _ => none
    match m.lats.find? (·.1 == c) with
    | some (_, l) =>
      if !l.done && l.issued.contains id && !l.answered.contains id then
        let l := { l with answered := l.answered ++ [id] }
        if l.answered.length < l.n then
          match pings, final with
          | [x], none => { m with lats := (m.lats.filter (·.1 != c)) ++ [(c, { l with issued := l.issued ++ [x] })] }
          | _, _ => m.bad "C18" "round-not-continued" (flat s!"after {l.answered.length} of {l.n} rounds: {reprStr own}")
        else
          let m := { m with lats := (m.lats.filter (·.1 != c)) ++ [(c, { l with done := true })] }
          match final with
          | some (r', n, ids, u, w) =>
            let m := if !pings.isEmpty then m.bad "C18" "ping-after-completion" (flat s!"{reprStr own}") else m
            if r' == l.rid && n == l.n && ids.isPerm l.issued && u == l.uuid && w == l.wallet then m
            else m.bad "C18" "report-not-bound-to-request"
              (flat s!"expected rid {l.rid} count {l.n} ids {l.issued} uuid {l.uuid} wallet {l.wallet}; got {reprStr own}")
          | none => m.bad "C18" "no-report-after-last-round" (flat s!"{l.n} rounds answered: {reprStr own}")
      else
        -- unknown id, or one answered before, or the measurement is over: refused, nothing advances
        if !pings.isEmpty || final.isSome then
          m.bad "C18" (if l.answered.contains id then "answered-ping-accepted" else "unknown-ping-accepted")
            (flat s!"ping response {id} (issued {l.issued}, answered {l.answered}, done {l.done}) advanced the measurement: {reprStr own}")
        else m
    | none =>
      if !pings.isEmpty || final.isSome then m.bad "C18" "unknown-ping-accepted" (flat s!"no measurement in progress: {reprStr own}") else m
  | some _, _ =>
    -- ping, receipt, dagaz, unknown: nothing may reach the other members
    m.checkOthers c ds [] ["C03"] "unexpected-relay"

/-- after the event: connections that ended (handler error, panic) have left; registry line (C07) -/
def MState.onEnd (m : MState) (c : Nat) (ds : List Delivery) (leftBy : String) : MState :=
  let m := { m with lats := m.lats.filter (·.1 != c) }
  match m.whereIs c with
  | none => m
  | some (s, pid) =>
    let (m', exp) := m.depart s pid
    m'.checkOthers c ds exp ["C06", "C02"] leftBy

def sortNat (l : List Nat) : List Nat := (l.toArray.qsort (· < ·)).toList

def MState.registry (m : MState) (st : IStep) : MState :=
  let live := sortNat (m.sessions.map (·.sid))
  let m := if live != st.sessions then m.bad "C07" "registry-mismatch" s!"registered {st.sessions}, sessions with members {live}" else m
  if st.gauge != (st.sessions.length : Int) then m.bad "C07" "gauge-mismatch" s!"gauge {st.gauge}, registered {st.sessions.length}" else m

/-- C03 frame: everything delivered during an event of connection `c` goes to `c` or to a member of a
    session `c` belonged to before or after the event -/
def frameCheck (before after : MState) (c : Nat) (ds : List Delivery) : Option String :=
  let allowed (k : Nat) : Bool :=
    k == c ||
    (match before.whereIs c with | some (s, _) => s.members.any (·.2 == k) | none => false) ||
    (match after.whereIs c with | some (s, _) => s.members.any (·.2 == k) | none => false)
  match ds.find? fun d => !allowed d.1 with
  | some d => some ((flat s!"delivery to connection {d.1} outside the actor's session: {reprStr d.2}"))
  | none => none

def MState.step (m : MState) (st : IStep) : MState :=
  let m0 := m
  let m := match st.ev with
    | .handle c (some r) _ =>
      let outcome := st.outcome
      -- the deliveries of a handler error include the departure's
      match outcome with
      | .ok => m.onRequest c r st.ds .ok
      | .connError =>
        -- a participant's request that the protocol answers or ignores must not end the connection: only a
        -- malformed frame does
        let m := match m.whereIs c, r with
          | _, .receipt .. =>
            -- the submitter of a receipt always gets its answer: a refusal that ends the connection is closed over before
            -- it is written
            let m := m.bad "C19" "refusal-ends-connection" (flat s!"{reprStr r}")
            if (m.whereIs c).isSome then m.bad "C04" "request-ends-connection" (flat s!"{reprStr r}") else m
          | some _, .undecodable .. => m
          | some _, .updatePose .. =>
            ((m.bad "C04" "request-ends-connection" (flat s!"{reprStr r}")).bad "C05" "request-ends-connection" (flat s!"{reprStr r}")).bad "C11" "request-ends-connection" (flat s!"{reprStr r}")
          | some _, .entityDelete .. | some _, .assetAdd .. =>
            (m.bad "C04" "request-ends-connection" (flat s!"{reprStr r}")).bad "C05" "request-ends-connection" (flat s!"{reprStr r}")
          | some _, _ => m.bad "C04" "request-ends-connection" (flat s!"{reprStr r}")
          | none, _ => m
        -- a refused request must not have been executed; then the connection leaves through the normal path
        let m1 := match m.whereIs c, r with
          | some _, .join .. => m.onRequest c r st.ds .connError
          | _, _ => m
        m1.onEnd c st.ds "error-departure"
      | .panic site =>
        let m := m.bad "C08" "handler-panic" (flat s!"{site} on {reprStr r}")
        -- a participant's request with a request id whose handler never came back has not been answered
        match m.whereIs c, r with
        | some _, .updatePose .. | some _, .custom .. | some _, .compUpdate .. | some _, .quadSample ..
        | some _, .undecodable .. | some _, .unknown .. | some _, .pingResp .. => m
        | some _, _ => m.bad "C04" "request-unanswered" (flat s!"{site} on {reprStr r}")
        | none, _ => m
    | .handle _ none _ => if st.ds.isEmpty then m else m.bad "C03" "delivery-without-cause" (flat s!"{reprStr st.ds}")
    | .disconnect c => m.onEnd c st.ds "disconnect-departure"
    | .recv c _ =>
      match st.outcome with
      | .ok => if st.ds.isEmpty then m else m.bad "C11" "delivery-on-receive" (flat s!"{reprStr st.ds}")
      | _ => m.onEnd c st.ds "error-departure"
    | .connect _ | .tick _ | .drain => if st.ds.isEmpty then m else m.bad "C03" "delivery-without-cause" (flat s!"{reprStr st.ds}")
    | .conc _ => m
  let m := match st.ev with
    | .handle c _ _ | .disconnect c | .recv c _ =>
      match frameCheck m0 m c st.ds with
      | some d => m.bad "C03" "delivery-outside-session" d
      | none => m
    | _ => m
  let m := m.registry st
  -- C03 / C11: an update that waits for its frame is handled between the same two join requests of its connection as it
  -- was sent: not after a later join, in a session where the same ids name other things (nor before an earlier one)
  let cnt (l : List (Nat × Nat)) (c : Nat) : Nat := ((l.find? fun q => q.1 == c).map Prod.snd).getD 0
  let bump (l : List (Nat × Nat)) (c : Nat) : List (Nat × Nat) := (l.filter fun q => q.1 != c) ++ [(c, cnt l c + 1)]
  let m := match st.ev with
    | .recv c (.join ..) => { m with joinsSent := bump m.joinsSent c }
    | .recv c (.updatePose ots _ (some _)) | .recv c (.compUpdate ots ..) =>
      { m with parked := (m.parked.filter fun q => q.1 != (c, ots)) ++ [((c, ots), cnt m.joinsSent c)] }
    | .handle c (some (.join ..)) _ => { m with joinsDone := bump m.joinsDone c }
    | .handle c (some (.updatePose ots ..)) _ | .handle c (some (.compUpdate ots ..)) _ =>
      match m.parked.find? fun q => q.1 == (c, ots) with
      | some (_, was) =>
        let now_ := cnt m.joinsDone c
        let m := { m with parked := m.parked.filter fun q => q.1 != (c, ots) }
        if was != now_ then
          let d := s!"connection {c} sent update {ots} after {was} join requests; it is handled after {now_} of them"
          (m.bad "C03" "update-carried-into-another-session" d).bad "C11" "update-carried-into-another-session" d
        else m
      | none => m
    | .connect c | .disconnect c =>
      { m with joinsSent := m.joinsSent.filter (·.1 != c), joinsDone := m.joinsDone.filter (·.1 != c), parked := m.parked.filter (·.1.1 != c) }
    | _ => m
  -- C02, last clause: the updates of one entity that wait for the same frame are relayed in the order in which their
  -- connection received them.  Updates of one kind coalesce (the latest value is relayed); an inversion is unambiguous
  -- when every arrival of the update relayed later precedes every arrival of the one relayed first.
  let m := match st.ev with
    | .recv c (.updatePose _ eid (some _)) | .recv c (.compUpdate _ _ eid _) =>
      let kind := match st.ev with | .recv _ (.compUpdate _ tid ..) => tid + 1 | _ => 0
      let key := (c, kind, eid)
      let first := ((m.held.find? fun q => q.1 == key).map fun q => q.2.1).getD m.seq
      { m with seq := m.seq + 1, held := (m.held.filter fun q => q.1 != key) ++ [(key, first, m.seq)] }
    | .handle c (some (.updatePose _ eid _)) _ | .handle c (some (.compUpdate _ _ eid _)) _ =>
      let kind := match st.ev with | .handle _ (some (.compUpdate _ tid ..)) _ => tid + 1 | _ => 0
      let key := (c, kind, eid)
      let relayedTo := ((st.ds.filter fun (d : Delivery) => d.1 != c && (match d.2 with | .poseBcast .. | .compUpdateBcast .. => true | _ => false)).map Prod.fst).eraseDups
      match m.held.find? fun q => q.1 == key with
      | some (_, first, _) =>
        let m := { m with held := m.held.filter fun q => q.1 != key }
        -- was this one overtaken by a later update of the same entity that reached the same connection?
        let m := match m.overtaken.find? fun q => q.1 == key with
          | some (_, who) =>
            let both := relayedTo.filter who.contains
            let m := { m with overtaken := m.overtaken.filter fun q => q.1 != key }
            if both.isEmpty then m else
              m.bad "C02" "deferred-updates-of-an-entity-reordered"
                s!"connection {c} sent this update of entity {eid} (kind {kind}: 0 pose, n+1 component type n) before another update of the same entity, both waited for the same frame, and connections {both} were relayed the other one first"
          | none => m
        -- the ones still waiting whose every arrival precedes this one's first are overtaken
        let waiting := m.held.filter fun q => q.1.1 == c && q.1.2.2 == eid && q.2.2 < first
        if relayedTo.isEmpty then m else
        { m with overtaken := waiting.foldl (fun (o : List ((Nat × Nat × Nat) × List Nat)) q =>
            let old := ((o.find? fun x => x.1 == q.1).map Prod.snd).getD []
            (o.filter fun x => x.1 != q.1) ++ [(q.1, (old ++ relayedTo).eraseDups)]) m.overtaken }
      | none => m
    | .connect c | .disconnect c =>
      { m with held := m.held.filter (·.1.1 != c), overtaken := m.overtaken.filter (·.1.1 != c) }
    | _ => m
  -- C04: every message the server sends carries its time (the receive function the clients are built on refuses one
  -- that does not): an answer without it never reaches the requester
  let m := st.extra.foldl (fun (m : MState) (x : String) =>
    match x.splitOn " " with
    | ["notimestamp", c, kind] => m.bad "C04" "message-without-timestamp" s!"connection {c} was sent a {kind} without a timestamp"
    | ["splitstate", c, name] =>
      -- the module of connection `c` works on a state that is not its session's: what it stores no newcomer is handed,
      -- what it numbers collides with the session's numbering
      let d := s!"the {name} module of connection {c} holds a state of its own, not the one of its session"
      let m := ((m.bad "C01" "module-state-split" d).bad "C10" "module-state-split" d).bad "C16" "module-state-split" d
      if name == "dagaz" then m.bad "C20" "module-state-split" d else m
    | _ => m) m
  -- C20 retention: the number of stored planes a session reports never goes down while the session lives
  let m := match st.ev with
    | .handle c _ _ =>
      match m0.whereIs c with
      | some (s, _) =>
        st.extra.foldl (fun (m : MState) (x : String) =>
          match x.splitOn " " with
          | ["debug", _, p] =>
            match (p.drop 7).toString.toNat? with
            | some n =>
              let last := ((m.planes.find? fun (q : Nat × Nat) => q.1 == s.uuid).map Prod.snd).getD 0
              let m := if n < last then m.bad "C20" "samples-lost" s!"session {s.uuid} reported {last} planes earlier, now {n}" else m
              { m with planes := (m.planes.filter fun (q : Nat × Nat) => q.1 != s.uuid) ++ [(s.uuid, max n last)] }
            | none => m
          | _ => m) m
      | none => m
    | _ => m
  -- C03 / C11 frames: the frame of a session reaches the connections of its members, all of them and no other
  -- (a connection that switched sessions is driven by the frames of the session it is in, not of the one it left)
  let m := match st.ev with
    | .tick sid =>
      let pumped := st.extra.filterMap fun (x : String) =>
        match x.splitOn " " with | ["pumped", c] => c.toNat? | _ => none
      let members := ((m0.sessions.filter fun (s : MSess) => s.sid == sid).flatMap fun (s : MSess) => s.members.map Prod.snd)
      let strangers := pumped.filter fun c => !members.contains c
      let missed := members.filter fun c => !pumped.contains c
      let m := if strangers.isEmpty then m else
        m.bad "C03" "frame-of-another-session-reaches-connection" s!"the frame of session {sid} drove the schedulers of connections {strangers}, which are not in it (its members' connections: {members})"
      if missed.isEmpty then m else
        m.bad "C11" "frame-does-not-reach-member" s!"the frame of session {sid} did not reach the connections {missed} of its members"
    | _ => m
  -- C20 sharing: the planes are the session's - between two samples every member asking for the same region gets the
  -- same answer, whoever asks
  let m := match st.ev with
    | .handle c (some (.quadSample _)) _ =>
      match m0.whereIs c with
      | some (s, _) => { m with regions := m.regions.filter fun (q : (Nat × String) × String × Nat) => q.1.1 != s.uuid }
      | none => m
    | .handle c (some (.region rid box)) _ =>
      match m0.whereIs c with
      | some (s, _) =>
        st.extra.foldl (fun (m : MState) (x : String) =>
          match x.splitOn " " with
          | "region" :: r :: rest =>
            if r.toNat? != some rid then m else
            let ans := " ".intercalate rest
            match m.regions.find? fun (q : (Nat × String) × String × Nat) => q.1 == (s.uuid, box) with
            | some q =>
              if q.2.1 == ans then m
              else m.bad "C20" "members-see-different-planes"
                s!"session {s.uuid}, region {box}: connection {q.2.2} was answered [{q.2.1}], connection {c} [{ans}], with no sample accepted in between"
            | none => { m with regions := m.regions ++ [((s.uuid, box), ans, c)] }
          | _ => m) m
      | none => m
    | _ => m
  -- C11 order: what an observer is relayed of an entity's pose updates follows the order in which the sender's
  -- connection received them - later ones may overtake nothing, none comes twice
  let m := match st.ev with
    | .recv c (.updatePose ots eid _) =>
      let key := (c, eid)
      let old := ((m.poseSent.find? fun (q : (Nat × Nat) × List Nat) => q.1 == key).map Prod.snd).getD []
      { m with poseSent := (m.poseSent.filter fun (q : (Nat × Nat) × List Nat) => q.1 != key) ++ [(key, old ++ [ots])] }
    | .handle c (some (.updatePose _ eid _)) _ =>
      st.ds.foldl (fun (m : MState) (d : Delivery) =>
        match d.2 with
        | .poseBcast ots e _ =>
          if e != eid then m else
          let sent := ((m.poseSent.find? fun (q : (Nat × Nat) × List Nat) => q.1 == (c, eid)).map Prod.snd).getD []
          let key := (d.1, c, eid)
          let from_ := ((m.poseSeen.find? fun (q : (Nat × Nat × Nat) × Nat) => q.1 == key).map Prod.snd).getD 0
          match (sent.drop from_).findIdx? (· == ots) with
          | some i => { m with poseSeen := (m.poseSeen.filter fun (q : (Nat × Nat × Nat) × Nat) => q.1 != key) ++ [(key, from_ + i + 1)] }
          | none => m.bad "C11" "pose-reordered-or-repeated"
              s!"connection {d.1} is relayed update {ots} of entity {eid} from connection {c}, which is not among the updates received after the last one relayed: {sent.drop from_}"
        | _ => m) m
    | _ => m
  { m with ev := m.ev + 1 }

def runMonitors (cfg : Cfg) (tr : List IStep) : List Violation :=
  let m := tr.foldl MState.step ({ cfg } : MState)
  -- one report per (property, cause)
  m.viol.toList.foldl (fun acc v => if acc.any (fun w => w.prop == v.prop && w.cause == v.cause) then acc else acc ++ [v]) []

/-- C07 at a quiescent moment of the implementation (the executable reading of `Server.WF` on what the harness can see
    after a block of concurrently handled requests): `members` lists, for every live joined connection, the session
    number its handler is in and whether the registry resolves that number to that very session; `counts` the
    registered sessions with their number of participants. -/
def quiescentRegistry (members : List (Nat × Nat × Bool)) (counts : List (Nat × Nat)) (gauge : Int) : List (String × String) :=
  let orphans := members.filter fun (m : Nat × Nat × Bool) => !m.2.2
  let empties := counts.filter fun (c : Nat × Nat) => c.2 == 0
  let ids := counts.map Prod.fst
  let miscounted := counts.filter fun (c : Nat × Nat) =>
    (members.filter fun (m : Nat × Nat × Bool) => m.2.1 == c.1 && m.2.2).length != c.2
  (if orphans.isEmpty then [] else
    [("joined-session-not-discoverable", s!"connections {orphans.map Prod.fst} were answered a successful join and are in sessions {orphans.map fun (m : Nat × Nat × Bool) => m.2.1} that the registry does not resolve to the session they are in (registered: {counts})")]) ++
  (if empties.isEmpty then [] else
    [("empty-session-discoverable", s!"sessions {empties.map Prod.fst} are registered and have no participant (members: {members})")]) ++
  (if ids.eraseDups.length == ids.length then [] else
    [("two-sessions-share-an-id", s!"registered sessions {ids}")]) ++
  (if gauge == (counts.length : Int) then [] else
    [("session-gauge-off", s!"the session gauge reads {gauge} with {counts.length} sessions registered {ids}")]) ++
  (if miscounted.isEmpty then [] else
    [("membership-miscounted", s!"sessions {miscounted} (id, participants) against the live connections in them {members}")])

end Hagall.Spec
