/-
  Executable property predicates evaluated on implementation traces.
-/
import Hagall.Spec.Trace
namespace Hagall.Spec
open Hagall

structure Violation where
  prop : String
  cause : String
  event : Nat
  detail : String
deriving Repr, Inhabited

def runMonitors (_cfg : Cfg) (_tr : List IStep) : List Violation := []

end Hagall.Spec
