/-
  Implementation traces as the harness records them, and the comparison of model and implementation
  deliveries (canonicalised: set-valued fields as sets, the delete broadcasts of one departure as a set).
-/
import Hagall.Model.Wire
namespace Hagall

/-- events at harness level: `handle` names the message that the real scheduler handed out -/
inductive IEv
  | connect (c : Nat)
  | recv (c : Nat) (r : Req)
  | handle (c : Nat) (r : Option Req) (hint : Nat)
  | tick (sid : Nat)
  | disconnect (c : Nat)
  | drain
  | conc (tasks : List (Nat × Option Req))   -- several queued messages handled at the same time (no serial order explains the outcome)
deriving DecidableEq, Repr, Inhabited

structure IStep where
  ev : IEv
  ds : List Delivery          -- what the implementation delivered during this event
  outcome : Outcome
  sessions : List Nat         -- registered session ids after the event (sorted)
  gauge : Int                 -- session gauge after the event (relative to the start of the history)
  extra : List String := []   -- decoded payloads the model does not carry (dagaz query results, latency statistics)
deriving Repr, Inhabited

def Out.sameAs (a b : Out) : Bool :=
  match a, b with
  | .sessionState p e c, .sessionState p' e' c' => p.isPerm p' && e.isPerm e' && c.isPerm c'
  | .compListResp r c, .compListResp r' c' => r == r' && c.isPerm c'
  | .vikjaState x, .vikjaState y => x.isPerm y
  | .odalState x, .odalState y => x.isPerm y
  | .latencyResp r n ids u w, .latencyResp r' n' ids' u' w' =>
    r == r' && n == n' && ids.isPerm ids' && u == u' && w == w'
  | a, b => a == b

def isLeaveDelete : Out → Option Nat
  | .entityDeleteBcast none e => some e
  | _ => none

/-- insert `x` into a list whose tail-end run of leave-deletes is kept sorted by entity id
    (`acc` is reversed) -/
def insertRun (x : Out) : List Out → List Out
  | [] => [x]
  | y :: ys =>
    match isLeaveDelete x, isLeaveDelete y with
    | some a, some b => if a < b then y :: insertRun x ys else x :: y :: ys
    | _, _ => x :: y :: ys

/-- sort every maximal run of departure delete-broadcasts by entity id -/
def canonInbox (l : List Out) : List Out :=
  (l.foldl (fun acc x => insertRun x acc) []).reverse

def inboxOf (c : Nat) (ds : List Delivery) : List Out :=
  ds.filterMap fun d => if d.1 == c then some d.2 else none

def listSame : List Out → List Out → Bool
  | [], [] => true
  | a :: as, b :: bs => a.sameAs b && listSame as bs
  | _, _ => false

/-- per-recipient comparison of two delivery lists; returns the first recipient whose inbox differs -/
def diffDeliveries (model impl : List Delivery) : Option Nat :=
  let conns := ((model ++ impl).map (·.1)).eraseDups
  conns.find? fun c => !listSame (canonInbox (inboxOf c model)) (canonInbox (inboxOf c impl))

end Hagall
