/-
  C01: the view a participant holds.

  `View` is what a client can know: the state it was handed on joining, updated by every broadcast it receives
  (`View.apply`) and by its own accepted requests (`View.own`).  `View.apply` is the client half of the protocol; the
  theorems of `Props/C01.lean` are about this very function and the server model, and `runViews` evaluates it on
  recorded traces of the real server: whenever a newcomer is handed the state of a session, every member's view
  must equal what the newcomer is handed, and no member may ever be sent a broadcast its view cannot apply.
-/
import Hagall.Spec.Trace
import Hagall.Spec.Monitors
namespace Hagall.Spec
open Hagall

structure View where
  uuid : Nat := 0
  pid : Nat := 0
  pids : List Nat := []
  ents : List EntityView := []
  comps : List Comp := []
  actions : List Action := []
  assets : List Asset := []
deriving Repr, Inhabited, DecidableEq

def View.dropEntity (v : View) (eid : Nat) : View :=
  { v with ents := v.ents.filter (·.id != eid), comps := v.comps.filter (·.eid != eid),
           actions := v.actions.filter (·.eid != eid), assets := v.assets.filter (·.eid != eid) }

def View.hasEnt (v : View) (eid : Nat) : Bool := v.ents.any (·.id == eid)
def View.hasComp (v : View) (tid eid : Nat) : Bool := v.comps.any fun c => c.tid == tid && c.eid == eid

/-- apply a broadcast that is not about components; `none`: the view cannot apply it (an add of something it
    has, an update or delete of something it was never told about) -/
def View.applyCore (v : View) : Out → Option View
  | .joinBcast _ pid => if v.pids.contains pid then none else some { v with pids := v.pids ++ [pid] }
  | .leaveBcast pid => if v.pids.contains pid then some { v with pids := v.pids.filter (· != pid) } else none
  | .entityAddBcast _ e => if v.hasEnt e.id then none else some { v with ents := v.ents ++ [e] }
  | .entityDeleteBcast _ eid => if v.hasEnt eid then some (v.dropEntity eid) else none
  | .poseBcast _ eid p =>
    if v.hasEnt eid then some { v with ents := v.ents.map fun x => if x.id == eid then { x with pose := p } else x } else none
  | .actionBcast _ a => some { v with actions := setAction v.actions a }
  | .assetAddBcast _ a => some { v with assets := setAsset v.assets a }
  | _ => some v

/-- apply any broadcast -/
def View.apply (v : View) : Out → Option View
  | .compAddBcast _ c => if v.hasComp c.tid c.eid then none else some { v with comps := v.comps ++ [c] }
  | .compDeleteBcast _ tid eid =>
    if v.hasComp tid eid then some { v with comps := v.comps.filter fun c => !(c.tid == tid && c.eid == eid) } else none
  | .compUpdateBcast _ c =>
    if v.hasComp c.tid c.eid then some { v with comps := v.comps.map fun x => if x.tid == c.tid && x.eid == c.eid then c else x } else none
  | o => v.applyCore o

/-- under concurrency a client keeps the later of two actions of one entity and name, as the server does: the relays of
    two actions set at the same time may reach it in either order -/
def actionOlder (a x : Action) : Bool :=
  match a.ts, x.ts with
  | some t, some t0 => t.before t0
  | _, _ => false

def setActionLatest (l : List Action) (a : Action) : List Action :=
  if l.any (fun x => x.eid == a.eid && x.name == a.name && actionOlder a x) then l else setAction l a

/-- the (entity, name) pairs for which a connection saw, within one concurrent block, two different actions with the
    same timestamp: which of them the server kept cannot be told from what the connection was sent -/
def ambiguousActions (seen : List Action) : List (Nat × String) :=
  (seen.filter fun a => seen.any fun b => b.eid == a.eid && b.name == a.name && b != a && !actionOlder a b && !actionOlder b a).map
    (fun a => (a.eid, a.name)) |>.eraseDups

/-- apply a broadcast the way a client must under concurrency: what it is told may already be in the state it was handed
    (or not be there any more), so adds are upserts and deletes of unknown things are ignored -/
def View.applyLenient (v : View) : Out → View
  | .joinBcast _ pid => if v.pids.contains pid then v else { v with pids := v.pids ++ [pid] }
  | .leaveBcast pid => { v with pids := v.pids.filter (· != pid) }
  | .entityAddBcast _ e => if v.hasEnt e.id then v else { v with ents := v.ents ++ [e] }
  | .entityDeleteBcast _ eid => v.dropEntity eid
  | .poseBcast _ eid p => { v with ents := v.ents.map fun x => if x.id == eid then { x with pose := p } else x }
  | .compAddBcast _ c | .compUpdateBcast _ c =>
    { v with comps := (v.comps.filter fun x => !(x.tid == c.tid && x.eid == c.eid)) ++ [c] }
  | .compDeleteBcast _ tid eid => { v with comps := v.comps.filter fun c => !(c.tid == tid && c.eid == eid) }
  | .actionBcast _ a => { v with actions := setActionLatest v.actions a }
  | .assetAddBcast _ a => { v with assets := setAsset v.assets a }
  | _ => v

/-- fold the messages of a concurrent block the way a client must: what is attached (action, asset, component) to an
    entity it has been told, within the block, is deleted comes too late and is ignored - entity ids are never reissued
    in a session, so the deletion is final; an attachment that precedes the relay of its entity's creation is kept -/
def View.applyLenientAll (v : View) (msgs : List Out) : View :=
  (msgs.foldl (fun (acc : View × List Nat) (o : Out) =>
    let (v, gone) := acc
    match o with
    | .entityDeleteBcast _ eid => (v.applyLenient o, eid :: gone)
    | .actionBcast _ a => if gone.contains a.eid then acc else (v.applyLenient o, gone)
    | .assetAddBcast _ a => if gone.contains a.eid then acc else (v.applyLenient o, gone)
    | .compAddBcast _ c | .compUpdateBcast _ c => if gone.contains c.eid then acc else (v.applyLenient o, gone)
    | .entityAddBcast _ e => if gone.contains e.id then acc else (v.applyLenient o, gone)
    | .poseBcast _ eid _ => if gone.contains eid then acc else (v.applyLenient o, gone)
    | _ => (v.applyLenient o, gone)) (v, [])).1

/-- what a newcomer holds after a concurrent block: the session state as it arrived - whatever it was sent before that is
    overwritten by it -, then every message after it, folded as above; the module states replace the actions and the
    asset instances when they arrive -/
def View.applyNewcomer (v : View) (msgs : List Out) : View :=
  (msgs.foldl (fun (acc : View × List Nat) (o : Out) =>
    let (v, gone) := acc
    match o with
    | .vikjaState a => ({ v with actions := a }, gone)
    | .odalState a => ({ v with assets := a }, gone)
    | .entityDeleteBcast _ eid => (v.applyLenient o, eid :: gone)
    | .actionBcast _ a => if gone.contains a.eid then acc else (v.applyLenient o, gone)
    | .assetAddBcast _ a => if gone.contains a.eid then acc else (v.applyLenient o, gone)
    | .compAddBcast _ c | .compUpdateBcast _ c => if gone.contains c.eid then acc else (v.applyLenient o, gone)
    | .entityAddBcast _ e => if gone.contains e.id then acc else (v.applyLenient o, gone)
    | .poseBcast _ eid _ => if gone.contains eid then acc else (v.applyLenient o, gone)
    | _ => (v.applyLenient o, gone)) (v, [])).1

def View.applyAll (v : View) : List Out → Option View
  | [] => some v
  | m :: ms => (v.apply m).bind (·.applyAll ms)

def View.applyAllCore (v : View) : List Out → Option View
  | [] => some v
  | m :: ms => (v.applyCore m).bind (·.applyAllCore ms)

/-- the effect of the participant's own request, given the answers it received -/
def View.own (v : View) (r : Req) (answers : List Out) : View :=
  match r with
  | .entityAdd rid _ _ flag pose =>
    match answers.findSome? fun o => match o with | .entityAddResp r' eid => if r' == rid then some eid else none | _ => none with
    | some eid => { v with ents := v.ents ++ [⟨eid, v.pid, flag, pose.getD 0⟩] }
    | none => v
  | .entityDelete rid _ eid => if answers.contains (.entityDeleteResp rid) then v.dropEntity eid else v
  | .updatePose _ eid (some p) =>
    { v with ents := v.ents.map fun x => if x.id == eid && x.owner == v.pid then { x with pose := p } else x }
  | .compAdd rid _ tid eid data => if answers.contains (.compAddResp rid) then { v with comps := v.comps ++ [⟨tid, eid, data⟩] } else v
  | .compDelete rid _ tid eid =>
    if answers.contains (.compDeleteResp rid) then { v with comps := v.comps.filter fun c => !(c.tid == tid && c.eid == eid) } else v
  | .compUpdate _ tid eid data =>
    { v with comps := v.comps.map fun x => if x.tid == tid && x.eid == eid then ⟨tid, eid, data⟩ else x }
  | .action rid _ (some a) => if answers.contains (.actionResp rid) then { v with actions := setAction v.actions a } else v
  | .assetAdd rid _ assetId eid =>
    match answers.findSome? fun o => match o with | .assetAddResp r' aid => if r' == rid then some aid else none | _ => none with
    | some aid => { v with assets := setAsset v.assets ⟨aid, assetId, v.pid, eid⟩ }
    | none => v
  | _ => v

/-! ### the monitor -/

structure Member where
  conn : Nat
  view : View
  subs : List (Nat × Nat) := []        -- type id ↦ event at which the subscription (still held) was made
  loose : List (Nat × String) := []    -- actions (entity, name) whose value a concurrent block left undetermined for this connection
deriving Repr, Inhabited

structure VState where
  cfg : Cfg
  members : List Member := []
  changed : List ((Nat × Nat × Nat) × Nat) := []   -- (session uuid, type, entity) ↦ event of the component's last possible change
  silent : List (Nat × Nat × Nat) := []            -- components whose last add / delete happened while their type had no subscriber: nobody was told
  ev : Nat := 0
  viol : Array Violation := #[]
deriving Inhabited

def VState.bad (m : VState) (cause detail : String) : VState :=
  { m with viol := m.viol.push ⟨"C01", cause, m.ev, detail⟩ }

def VState.find (m : VState) (c : Nat) : Option Member := m.members.find? (·.conn == c)
def VState.put (m : VState) (x : Member) : VState :=
  { m with members := (m.members.filter (·.conn != x.conn)) ++ [x] }
def VState.drop (m : VState) (c : Nat) : VState := { m with members := m.members.filter (·.conn != c) }

def isCompBcast : Out → Bool
  | .compAddBcast .. | .compDeleteBcast .. | .compUpdateBcast .. => true
  | _ => false

/-- lenient repair after a component broadcast the view could not apply, so that monitoring goes on -/
def View.force (v : View) : Out → View
  | .compAddBcast _ c | .compUpdateBcast _ c =>
    { v with comps := (v.comps.filter fun x => !(x.tid == c.tid && x.eid == c.eid)) ++ [c] }
  | _ => v

def VState.touch (m : VState) (uuid tid eid : Nat) : VState :=
  { m with changed := (m.changed.filter fun (q : (Nat × Nat × Nat) × Nat) => q.1 != (uuid, tid, eid)) ++ [((uuid, tid, eid), m.ev)] }

/-- does any member of the session subscribe to the type?  (then an add / delete is announced to everybody) -/
def VState.typeWatched (m : VState) (uuid tid : Nat) : Bool :=
  m.members.any fun (x : Member) => x.view.uuid == uuid && x.subs.any (·.1 == tid)

def VState.markSilent (m : VState) (uuid tid eid : Nat) (silent : Bool) : VState :=
  let rest := m.silent.filter (· != (uuid, tid, eid))
  { m with silent := if silent then rest ++ [(uuid, tid, eid)] else rest }

def VState.lastChange (m : VState) (uuid tid eid : Nat) : Nat :=
  ((m.changed.find? fun (q : (Nat × Nat × Nat) × Nat) => q.1 == (uuid, tid, eid)).map Prod.snd).getD 0

def compKey (c : Comp) : Nat × Nat := (c.tid, c.eid)

/-- compare a member's view with the state a newcomer to the same session was just handed -/
def VState.compare (m : VState) (x : Member) (ps : List Nat) (es : List EntityView) (cs : List Comp)
    (acts : Option (List Action)) (assets : Option (List Asset)) : VState :=
  let v := x.view
  let m := if !v.pids.isPerm ps then m.bad "view-diverged" (flat s!"connection {x.conn}: participants {v.pids}, the server has {ps}") else m
  let m := if !v.ents.isPerm es then m.bad "view-diverged" (flat s!"connection {x.conn}: entities {reprStr v.ents}, the server has {reprStr es}") else m
  let m := match acts with
    | some a =>
      let firm (l : List Action) := l.filter fun (y : Action) => !x.loose.contains (y.eid, y.name)
      if !(firm v.actions).isPerm (firm a) then m.bad "view-diverged" (flat s!"connection {x.conn}: entity actions {reprStr v.actions}, the server has {reprStr a}") else m
    | none => m
  let m := match assets with
    | some a => if !v.assets.isPerm a then m.bad "view-diverged" (flat s!"connection {x.conn}: asset instances {reprStr v.assets}, the server has {reprStr a}") else m
    | none => m
  -- components of the types the member subscribes to
  x.subs.foldl (fun (m : VState) (sub : Nat × Nat) =>
    let (tid, since) := sub
    let mine := v.comps.filter (·.tid == tid)
    let theirs := cs.filter (·.tid == tid)
    if mine.isPerm theirs then m else
    let differing := (mine.filter fun c => !theirs.contains c) ++ (theirs.filter fun c => !mine.contains c)
    -- differences on components that last changed before the subscription: the late subscriber was never told
    if differing.all fun c => m.lastChange v.uuid c.tid c.eid < since || m.silent.contains (v.uuid, c.tid, c.eid) then
      m.bad "late-subscriber-misses-components" (flat s!"connection {x.conn} subscribed to type {tid} at event {since}: holds {reprStr mine}, the server has {reprStr theirs}")
    else m.bad "view-diverged" (flat s!"connection {x.conn}: components of type {tid} {reprStr mine}, the server has {reprStr theirs}")) m

def VState.deliver (m : VState) (c : Nat) (outs : List Out) : VState :=
  match m.find c with
  | none => m
  | some x =>
    let (m, v) := outs.foldl (fun (acc : VState × View) (o : Out) =>
      let (m, v) := acc
      match v.apply o with
      | some v' => (m, v')
      | none =>
        if isCompBcast o then
          let key := match o with
            | .compAddBcast _ k | .compUpdateBcast _ k => (v.uuid, k.tid, k.eid)
            | .compDeleteBcast _ tid eid => (v.uuid, tid, eid)
            | _ => (0, 0, 0)
          -- a component that was added or deleted while its type had no subscriber was never announced
          if m.silent.contains key then
            (m.bad "never-announced-component-relayed" (flat s!"connection {c} is sent {reprStr o} for a component it was never told about (it was added while the type had no subscriber)"), v.force o)
          else (m.bad "inapplicable-component-broadcast" (flat s!"connection {c} cannot apply {reprStr o}"), v.force o)
        else (m.bad "inapplicable-broadcast" (flat s!"connection {c} cannot apply {reprStr o} to {reprStr v}"), v)) (m, x.view)
    m.put { x with view := v }

def connsOf (ds : List Delivery) (c : Nat) : List Nat := ((ds.map fun (d : Delivery) => d.1).eraseDups).filter (· != c)

/-- everybody but `c` applies what it is sent -/
def VState.deliverOthers (m : VState) (c : Nat) (ds : List Delivery) : VState :=
  (connsOf ds c).foldl (fun (m : VState) (k : Nat) => m.deliver k (inboxOf k ds)) m

def joinedAs (own : List Out) : Option (Nat × Nat) :=
  own.findSome? fun (o : Out) => match o with | .joinResp _ _ uuid pid => some (uuid, pid) | _ => none
def handedState (own : List Out) : Option (List Nat × List EntityView × List Comp) :=
  own.findSome? fun (o : Out) => match o with | .sessionState ps es cs => some (ps, es, cs) | _ => none
def handedActions (own : List Out) : Option (List Action) :=
  own.findSome? fun (o : Out) => match o with | .vikjaState a => some a | _ => none
def handedAssets (own : List Out) : Option (List Asset) :=
  own.findSome? fun (o : Out) => match o with | .odalState a => some a | _ => none

def VState.step (m : VState) (st : IStep) : VState :=
  let before := m
  let m := match st.ev with
    | .handle c (some r) _ =>
      let own := inboxOf c st.ds
      -- everybody else applies what it is sent (judged against what had been announced before this request)
      let m0 := m
      let m := m.deliverOthers c st.ds
      -- a component may change at the server through any of these, told to the others or not
      let m := match m.find c, r with
        | some x, .compAdd rid _ tid eid _ =>
          if own.contains (.compAddResp rid) then (m.touch x.view.uuid tid eid).markSilent x.view.uuid tid eid (!m0.typeWatched x.view.uuid tid) else m
        | some x, .compDelete rid _ tid eid =>
          if own.contains (.compDeleteResp rid) then (m.touch x.view.uuid tid eid).markSilent x.view.uuid tid eid (!m0.typeWatched x.view.uuid tid) else m
        | some x, .compUpdate _ tid eid _ => m.touch x.view.uuid tid eid
        | _, _ => m
      -- the sender
      let m := match joinedAs own with
        | some (uuid, pid) =>
          match handedState own with
          | some (ps, es, cs) =>
            let acts := handedActions own
            let assets := handedAssets own
            -- every member of that session must hold what the newcomer is handed
            let m := (m.members.filter fun (x : Member) => x.view.uuid == uuid && x.conn != c).foldl
              (fun (m : VState) (x : Member) => m.compare x ps es cs acts assets) m
            m.put { conn := c, view := { uuid, pid, pids := ps, ents := es, comps := cs, actions := acts.getD [], assets := assets.getD [] } }
          | none => m.drop c
        | none =>
          match m.find c with
          | some x =>
            let v := x.view.own r own
            let subs := match r with
              | .subscribe rid tid => if own.contains (.subscribeResp rid) && !x.subs.any (·.1 == tid) then x.subs ++ [(tid, m.ev)] else x.subs
              | .unsubscribe rid tid => if own.contains (.unsubscribeResp rid) then x.subs.filter (·.1 != tid) else x.subs
              | _ => x.subs
            m.put { x with view := v, subs }
          | none => m
      match st.outcome with
      | .ok => m
      | _ => m.drop c
    | .conc tasks =>
      -- several requests handled at once: every connection folds what it was sent, in the order it was sent it
      let conns := ((st.ds.map fun (d : Delivery) => d.1) ++ tasks.map Prod.fst).eraseDups
      -- a connection that goes away within the block (task type 4294967295) holds no view any more
      let gone := tasks.filterMap fun (t : Nat × Option Req) => match t.2 with | some (.unknown 4294967295) => some t.1 | _ => none
      let m := gone.foldl (fun (m : VState) (k : Nat) => m.drop k) m
      (conns.filter fun k => !gone.contains k).foldl (fun (m : VState) (k : Nat) =>
        let inbox := inboxOf k st.ds
        let mine := (tasks.find? fun (t : Nat × Option Req) => t.1 == k).bind Prod.snd
        match joinedAs inbox, handedState inbox with
        | some (uuid, pid), some (ps, es, cs) =>
          let v0 : View := { uuid, pid, pids := ps, ents := es, comps := cs, actions := [], assets := [] }
          -- what it was sent before the session state is overwritten by it: the state must not be older than any of that
          -- (it is taken and queued while nothing is being relayed in the session)
          let after := (inbox.dropWhile fun (o : Out) => match o with | .sessionState .. => false | _ => true).drop 1
          m.put { conn := k, view := v0.applyNewcomer after }
        | some _, none => m.drop k
        | none, _ =>
          match m.find k with
          | some x =>
            let v := x.view.applyLenientAll inbox
            -- its own accepted attachment to an entity it has meanwhile been told is gone went with that entity
            let orphan : Bool := match mine with
              | some (.action _ _ (some a)) => !v.hasEnt a.eid
              | some (.assetAdd _ _ _ eid) => !v.hasEnt eid
              | some (.compAdd _ _ _ eid _) => !v.hasEnt eid
              | _ => false
            let v := match mine with
              | some (.action rid _ (some a)) =>
                if orphan || !inbox.contains (.actionResp rid) then v else { v with actions := setActionLatest v.actions a }
              | some r => if orphan then v else v.own r inbox
              | none => v
            let seen := (inbox.filterMap fun (o : Out) => match o with | .actionBcast _ a => some a | _ => none) ++
              (match mine with | some (.action rid _ (some a)) => if inbox.contains (.actionResp rid) then [a] else [] | _ => [])
            m.put { x with view := v, loose := (x.loose ++ ambiguousActions seen).eraseDups }
          | none => m) m
    | .disconnect c => (m.deliverOthers c st.ds).drop c
    | .recv c _ =>
      match st.outcome with
      | .ok => m
      | _ => (m.deliverOthers c st.ds).drop c
    | _ => m
  -- an action that a later, sequential event sets again is determined again
  let m := match st.ev with
    | .conc _ => m
    | _ =>
      let at_ (v : View) (k : Nat × String) := v.actions.find? fun (a : Action) => a.eid == k.1 && a.name == k.2
      { m with members := m.members.map fun (x : Member) =>
          if x.loose.isEmpty then x else
          match before.find x.conn with
          | some x0 => { x with loose := x.loose.filter fun k => at_ x.view k == at_ x0.view k }
          | none => x }
  { m with ev := m.ev + 1 }

/-- views are only comparable when no broadcast class is switched off -/
def runViews (cfg : Cfg) (tr : List IStep) : List Violation :=
  if !cfg.flags.isEmpty then [] else
  let m := tr.foldl VState.step ({ cfg } : VState)
  m.viol.toList.foldl (fun acc v => if acc.any (fun w => w.cause == v.cause) then acc else acc ++ [v]) []

end Hagall.Spec
