/-
  Correspondence for Layer C of the registry: the outcomes the proved model (`Model/Registry.lean`) can reach from a given
  server state when a set of connections each issue one join (by id or new) at once, under every interleaving of the
  model's critical sections and every choice of the id pool.  The driver compares the outcome the real handlers produced
  under each explored schedule with this set.
-/
import Hagall.Model.Registry
import Hagall.Model.Server
namespace Hagall.Registry

/-- the registry state of a Layer-S server: session objects in registry order, their members' connections -/
def fromServer (srv : Server) : St :=
  let objs : List Obj := srv.sessions.map fun (s : Session) => { id := s.id, members := s.parts.map (·.conn), ended := false }
  { n := objs.length,
    obj := fun i => objs.getD i { id := 0 },
    reg := (List.range objs.length).map fun i => ((objs.getD i { id := 0 }).id, i),
    pool := srv.ids.pool, cur := srv.ids.cur, gauge := srv.gauge,
    pc := fun c => .idle (objs.findIdx? fun (o : Obj) => o.members.contains c) }

/-- what can be observed of a final state: for every task's connection the number of the session it rests in (and
    whether the registry resolves that number to it), the registered numbers, the gauge -/
structure Outcome where
  where_ : List (Nat × Option (Nat × Bool))
  registered : List Nat
  gauge : Int
deriving DecidableEq, Repr, Inhabited

def sortNats (l : List Nat) : List Nat := l.foldl (fun acc x => (acc.takeWhile (· ≤ x)) ++ [x] ++ acc.dropWhile (· ≤ x)) []

def outcomeOf (s : St) (conns : List Nat) : Outcome :=
  { where_ := conns.map fun c =>
      (c, match s.pc c with
          | .idle (some o) => some ((s.obj o).id, lookup s.reg (s.obj o).id == some o)
          | _ => none),
    registered := sortNats (s.reg.map Prod.fst), gauge := s.gauge }

/-- a decidable fingerprint of a state (the connections of interest only) -/
def key (s : St) (conns : List Nat) (started : List Bool) :=
  (conns.map s.pc, s.reg, s.pool, s.cur, s.gauge, (List.range s.n).map s.obj, started)

/-- every final outcome reachable when each connection in `tasks` issues its request once; `fuel` bounds the search
    (a task takes at most 7 critical sections) -/
partial def explore (tasks : List (Nat × Req)) (s0 : St) : List Outcome :=
  let conns := tasks.map Prod.fst
  let rec go (stack : List (St × List Bool)) (seen : List (List PC × List (Nat × Nat) × List Nat × Nat × Int × List Obj × List Bool))
      (outs : List Outcome) : List Outcome :=
    match stack with
    | [] => outs
    | (s, started) :: rest =>
      let k := key s conns started
      if seen.contains k then go rest seen outs else
      let seen := k :: seen
      -- tasks that can still move: not started, or started and not back to idle
      let movable := (tasks.zip started).zipIdx.filter fun (x : ((Nat × Req) × Bool) × Nat) =>
        !x.1.2 || (match s.pc x.1.1.1 with | .idle _ => false | _ => true)
      if movable.isEmpty then
        let o := outcomeOf s conns
        go rest seen (if outs.contains o then outs else o :: outs)
      else
        let next := movable.flatMap fun (x : ((Nat × Req) × Bool) × Nat) =>
          let c := x.1.1.1
          let r := x.1.1.2
          let hints := match s.pc c with
            | .newid => if s.pool.isEmpty then [0] else s.pool
            | _ => [0]
          hints.map fun hint =>
            let s' := step s c r hint
            -- a request that an idle handler answers at once (refused, already joined, nothing to leave) is done
            (s', started.set x.2 true)
        go (next ++ rest) seen outs
  go [(s0, tasks.map fun _ => false)] [] []

end Hagall.Registry
