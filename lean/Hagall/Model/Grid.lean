/-
  The dagaz regular grid (`modules/dagaz/grid_spatial_partition.go`, `math.go`), statement for statement,
  over Lean's native `Float32` (IEEE binary32, bit-exact with Go's float32 on amd64 where the Go compiler
  does not fuse multiply-add).  Pointers to quads are indices into `quads`.  A Go conversion of a negative
  or non-finite float to an unsigned integer, an index out of range and an absurd allocation are `none`.
-/
import Hagall.Model.GridIndex
import Hagall.Model.Vec
namespace Hagall.Grid

abbrev V3 := Vec3 Float32

/-- `Length`: the squares are summed in float32, the root is taken in float64 -/
def Vec3.length (a : V3) : Float := (a.x * a.x + a.y * a.y + a.z * a.z).toFloat.sqrt
def Vec3.normalize (a : V3) : V3 :=
  let l := a.length.toFloat32
  if l != 0 then ⟨a.x / l, a.y / l, a.z / l⟩ else a
def Vec3.beq (a b : V3) : Bool := a.x == b.x && a.y == b.y && a.z == b.z

structure Quad where
  center : V3
  extents : V3
  normal : V3
  mergeCount : Nat
deriving Inhabited

/-- `calculateNormal` -/
def calcNormal (c e : V3) : V3 := (rawNormal c e).normalize

def mkQuad (c e : V3) (mc : Nat) : Quad := ⟨c, e, calcNormal c e, mc⟩

structure Ray where
  from_ : V3
  to : V3

def mergeEps32 : Float32 := 0.6
/-- `float64(MERGE_EPSILON)` -/
def mergeEps64 : Float := mergeEps32.toFloat
/-- the typed constant `MERGE_EPSILON + 1.0` -/
def mergeReach : Float32 := (mergeEps32.toFloat + 1.0).toFloat32

def equalWithEpsilon (a b : Float32) (eps : Float) : Bool := (a - b).toFloat.abs <= eps
def inRangeWithEpsilon (v mn mx eps : Float32) : Bool := v + eps >= mn && v - eps <= mx

/-- `doHorizontalPlanesOverlap` -/
def overlap (a b : Quad) : Bool := overlapXZ a.center a.extents b.center b.extents

/-- `IntersectQuad(r, q)` of math.go: (hit, t) -/
def intersectQuad (r : Ray) (q : Quad) : Bool × Float32 :=
  let rayDir := r.to.sub r.from_
  let denominator := q.normal.dot rayDir
  if denominator != 0 then
    let t := (q.normal.dot q.center - q.normal.dot r.from_) / denominator
    if t >= 0 && t <= 1 then
      let hit := r.from_.add (rayDir.mul t)
      let mn := q.center.sub q.extents
      let mx := q.center.add q.extents
      if inRangeWithEpsilon hit.x mn.x mx.x 0.0001 && inRangeWithEpsilon hit.y mn.y mx.y 0.0001 &&
         inRangeWithEpsilon hit.z mn.z mx.z 0.0001 then (true, t) else (false, -1)
    else (false, -1)
  else (false, -1)

structure Grid where
  res : Nat
  planeCount : Nat
  mergeCount : Nat
  min : V3
  max : V3
  cells : Cells                      -- cells[row y][column x]: ids of the quads registered in the cell
  quads : Array Quad
  -- ghost state, not part of the Go structure: the span each plane was last registered with, as the abstract
  -- index machine of `Props/C20.lean` tracks it, and how often the float32 arithmetic disagreed with it
  spans : Array Span := #[]
  spanChecks : Nat := 0
  spanDrift : Nat := 0
deriving Inhabited

/-- `NewRegularGrid(numCols, numRows, resolution)` -/
def newGrid (numCols numRows res : Nat) : Grid :=
  let numCols := if numCols == 0 then 1 else numCols
  let numRows := if numRows == 0 then 1 else numRows
  let res := if res == 0 then 1 else res
  { res, planeCount := 0, mergeCount := 0, min := ⟨0, 0, 0⟩, max := ⟨Float32.ofNat res, 0, Float32.ofNat res⟩,
    cells := List.replicate numRows (List.replicate numCols []), quads := #[] }

def Grid.rows (g : Grid) : Nat := g.cells.length
def Grid.cols (g : Grid) : Nat := (g.cells.head?.map List.length).getD 0

/-- `cellCoord`: `math.Floor((float64(a) - float64(b)) / float64(res))` - the difference is taken in float64, where it is
    exact (the float32 difference rounds, and rounds differently once the grid has grown) -/
def cellF (a b : Float32) (res : Nat) : Float := ((a.toFloat - b.toFloat) / Float.ofNat res).floor

/-- `cellOf`'s clamp: a corner a hair outside the grid, on either side, belongs to the border cell -/
def clampCell (f : Float) (count : Nat) : Nat :=
  if !(f >= 0) then 0 else if f >= Float.ofNat count then count - 1 else f.toUInt64.toNat

/-- `(uint)(f)`: defined for finite non-negative values below 2^62 only -/
def toUint (f : Float) : Option Nat :=
  if f.isNaN || f.isInf || f < 0 || f >= 4.0e18 then none else some f.toUInt64.toNat

/-- `(int)(f)` -/
def toInt (f : Float) : Option Int :=
  if f.isNaN || f.isInf || f.abs >= 4.0e18 then none else some f.toInt64.toInt

def cellU (a b : Float32) (res : Nat) : Option Nat := toUint (cellF a b res)

/-- the quads registered in cell (x, y) -/
def Grid.cell (g : Grid) (x y : Nat) : Option (List Nat) := g.cells.get x y

/-- closest hit among the quads of one cell: `(quad id, tMin)` -/
def Grid.scanCell (g : Grid) (r : Ray) (ids : List Nat) : Option Nat × Float32 :=
  ids.foldl (fun (acc : Option Nat × Float32) id =>
    match g.quads[id]? with
    | some q =>
      let (hit, t) := intersectQuad r q
      if hit && t < acc.2 then (some id, t) else acc
    | none => acc) (none, (1.0 : Float32) / 0.0)

/-- one step of the cell walk of `RegularGrid.IntersectQuad` (with both cell indices clamped) -/
def Grid.walk (g : Grid) (r newRay : Ray) (rayDir : V3) (deltaTX deltaTY : Float32) : Nat → Float32 → Option (Option Nat × Float32)
  | 0, _ => some (none, -1)          -- `steps <= rows + cols` exhausted
  | fuel + 1, t =>
    let hitPoint := newRay.from_.add (rayDir.mul t)
    let cx := cellF hitPoint.x g.min.x g.res
    let cy := cellF hitPoint.z g.min.z g.res
    -- (uint) conversion, then clamp to the bounds; out-of-domain conversions saturate in the Go build used here
    let clamp (f : Float) (n : Nat) : Nat := match toUint f with | some v => Nat.min v (n - 1) | none => n - 1
    let cellX := clamp cx g.cols
    let cellY := clamp cy g.rows
    match g.cell cellX cellY with
    | none => none
    | some ids =>
      let (res, tMin) := g.scanCell r ids
      if res.isSome then some (res, tMin)
      else
        let t' := if t + deltaTX < t + deltaTY then t + deltaTX else t + deltaTY
        if t' > 1 || t'.toFloat.isInf || t'.toFloat.isNaN then some (none, -1) else g.walk r newRay rayDir deltaTX deltaTY fuel t'

/-- `RegularGrid.IntersectQuad` -/
def Grid.intersect (g : Grid) (r : Ray) : Option (Option Nat × Float32) :=
  let newRay : Ray := ⟨⟨r.from_.x, 0, r.from_.z⟩, ⟨r.to.x, 0, r.to.z⟩⟩
  let rayDir := newRay.to.sub newRay.from_
  if rayDir.length == 0 then
    match toInt (cellF newRay.from_.x g.min.x g.res), toInt (cellF newRay.from_.z g.min.z g.res) with
    | some cellX, some cellY =>
      if cellX < 0 || cellX >= g.cols then some (none, -1)
      else if cellY < 0 || cellY >= g.rows then some (none, -1)
      else match g.cell cellX.toNat cellY.toNat with
        | some ids => some (g.scanCell r ids)
        | none => none
    | _, _ => some (none, -1)
  else
    -- entry parameter on each axis
    let xtE : Option Float32 :=
      if newRay.from_.x < g.min.x then
        let xt := g.min.x - newRay.from_.x
        if xt > rayDir.x then none else some (xt / rayDir.x)
      else if newRay.from_.x > g.max.x then
        let xt := g.max.x - newRay.from_.x
        if xt < rayDir.x then none else some (xt / rayDir.x)
      else some 0
    let ztE : Option Float32 :=
      if newRay.from_.z < g.min.z then
        let zt := g.min.z - newRay.from_.z
        if zt > rayDir.z then none else some (zt / rayDir.z)
      else if newRay.from_.z > g.max.z then
        let zt := g.max.z - newRay.from_.z
        if zt < rayDir.z then none else some (zt / rayDir.z)
      else some 0
    match xtE, ztE with
    | some xt, some zt =>
      let tminx := (g.min.x - newRay.from_.x) / rayDir.x
      let tmaxx := (g.max.x - newRay.from_.x) / rayDir.x
      let (tminx, tmaxx) := if tminx > tmaxx then (tmaxx, tminx) else (tminx, tmaxx)
      let deltaTX := (tmaxx - tminx) / Float32.ofNat g.cols
      let tminy := (g.min.z - newRay.from_.z) / rayDir.z
      let tmaxy := (g.max.z - newRay.from_.z) / rayDir.z
      let (tminy, tmaxy) := if tminy > tmaxy then (tmaxy, tminy) else (tminy, tmaxy)
      let deltaTY := (tmaxy - tminy) / Float32.ofNat g.rows
      let t0 := if xt > zt then xt else zt
      g.walk r newRay rayDir deltaTX deltaTY (g.rows + g.cols + 1) t0
    | _, _ => some (none, -1)

/-- cell span of a plane's footprint under the grid's current origin -/
def Grid.span (g : Grid) (q : Quad) : Option Span := do
  let mn := q.center.sub q.extents
  let mx := q.center.add q.extents
  pure ⟨← cellU mn.x g.min.x g.res, ← cellU mn.z g.min.z g.res, ← cellU mx.x g.min.x g.res, ← cellU mx.z g.min.z g.res⟩

/-- the span a footprint is registered with (`cellOf` on its two corners) -/
def Grid.spanIn (g : Grid) (q : Quad) : Option Span :=
  let mn := q.center.sub q.extents
  let mx := q.center.add q.extents
  some ⟨clampCell (cellF mn.x g.min.x g.res) g.cols, clampCell (cellF mn.z g.min.z g.res) g.rows,
        clampCell (cellF mx.x g.min.x g.res) g.cols, clampCell (cellF mx.z g.min.z g.res) g.rows⟩

/-- the hypothesis of `Props/C20Total` about a span: its far cell exists, its near cell is at most one past the last -/
def Grid.inside (g : Grid) (s : Span) : Bool :=
  s.minX ≤ g.cols && s.minY ≤ g.rows && s.maxX < g.cols && s.maxY < g.rows

/-- `ExpandToFitPoint` -/
def Grid.expand (g : Grid) (p : V3) : Option Grid :=
  if p.x >= g.min.x && p.z >= g.min.z && p.x < g.max.x && p.z < g.max.z then some g else
  let cnt (v mn mx : Float32) : Option Nat :=
    if v >= mn && v < mx then some 0
    else if v < mn then (toInt ((v - mn).toFloat.floor.abs)).map Int.toNat
    else (toInt ((v - mx).toFloat.abs.floor + 1)).map Int.toNat
  match cnt p.x g.min.x g.max.x, cnt p.z g.min.z g.max.z with
  | some xc, some yc =>
    let ceilDiv (n : Nat) : Option Nat := (toInt ((Float.ofNat n / Float.ofNat g.res).ceil)).map Int.toNat
    match ceilDiv xc, ceilDiv yc with
    | some xCount, some yCount =>
      if xCount > 100000 || yCount > 100000 || (g.cols + xCount) * (g.rows + yCount) > 4000000 then none else
      let left := p.x < g.min.x
      let top := p.z < g.min.z
      let mn : V3 := if left then { g.min with x := g.min.x - Float32.ofNat (xCount * g.res) } else g.min
      let mx : V3 := if left then g.max else { g.max with x := g.max.x + Float32.ofNat (xCount * g.res) }
      let mn : V3 := if top then { mn with z := mn.z - Float32.ofNat (yCount * g.res) } else mn
      let mx : V3 := if top then mx else { mx with z := mx.z + Float32.ofNat (yCount * g.res) }
      let g' : Grid := { g with cells := grow g.cells xCount yCount left top, min := mn, max := mx }
      -- ghost: every span moves with its cells; compare with what float32 arithmetic now says
      let dx := if left then xCount else 0
      let dy := if top then yCount else 0
      let spans := g.spans.map fun s => (⟨s.minX + dx, s.minY + dy, s.maxX + dx, s.maxY + dy⟩ : Span)
      let bad := (List.range g.quads.size).countP fun i =>
        match g.quads[i]?, spans[i]? with
        | some q, some s => g'.spanIn q != some s
        | _, _ => true
      some { g' with spans, spanChecks := g.spanChecks + g.quads.size, spanDrift := g.spanDrift + bad }
    | _, _ => none
  | _, _ => none

/-- `mergeQuads(existing, new)` -/
def Grid.mergeQuads (g : Grid) (eid : Nat) (nq : Quad) : Option Grid := do
  let eq ← g.quads[eid]?
  let centerDiff := nq.center.sub eq.center
  let extentsDiff := nq.extents.sub eq.extents
  let eq' : Quad := { eq with center := eq.center.add (centerDiff.mul 0.2), extents := eq.extents.add (extentsDiff.mul 0.2) }
  -- the grid first grows to hold the footprint the plane is about to get (rounded in float32 it can come out a hair
  -- outside): no corner is clamped into a border cell and found in another one after a later growth
  let g ← g.expand (eq'.center.sub eq'.extents)
  let g ← g.expand (eq'.center.add eq'.extents)
  let s0 ← g.spanIn eq
  let s1 ← g.spanIn eq'
  let cells ← reRegister g.cells eid s0 s1
  -- ghost: the move starts from the span the plane was registered with
  let bad := (if g.spans[eid]? == some s0 then 0 else 1) + (if g.inside s0 && g.inside s1 then 0 else 1)
  pure { g with cells, quads := g.quads.set! eid { eq' with mergeCount := eq'.mergeCount + 1 }, mergeCount := g.mergeCount + 1,
                spans := g.spans.set! eid s1, spanChecks := g.spanChecks + 1, spanDrift := g.spanDrift + bad }

/-- the merging loop of `InsertQuad`: `cur = none` is the new quad itself, `some id` an existing quad that
    absorbed it; returns `(grid, appended?)` -/
def Grid.mergeLoop (g : Grid) (q : Quad) (seen : List Nat) : Nat → Option Nat → Option (Grid × Bool)
  | 0, _ => none               -- a plane takes part once (`mergedInto`): the fuel is never used up
  | fuel + 1, cur => do
    let qm ← match cur with | none => some q | some id => g.quads[id]?
    let upRay : Ray := ⟨qm.center, ⟨qm.center.x, qm.center.y + mergeReach, qm.center.z⟩⟩
    let (hitUp, tUp) ← g.intersect upRay
    let downRay : Ray := ⟨qm.center, ⟨qm.center.x, qm.center.y - mergeReach, qm.center.z⟩⟩
    let (hitDown, tDown) ← g.intersect downRay
    if hitDown.isNone && hitUp.isNone then some (g, cur.isNone) else
    let hit := if tDown < tUp then hitDown else hitUp
    match hit with
    | none => none      -- Go dereferences a nil *Quad here
    | some hid =>
      let hq ← g.quads[hid]?
      if equalWithEpsilon hq.center.y qm.center.y mergeEps64 && overlap hq qm then do
        -- a plane takes part in the cascade once
        if cur == some hid || seen.contains hid then return (g, false)
        let g' ← g.mergeQuads hid qm
        let hq' ← g'.quads[hid]?
        -- `quadToMerge` may be the very quad that was just moved: compare with its current value
        let qm' ← match cur with | none => some q | some id => g'.quads[id]?
        if hq'.center.beq qm'.center then some (g', false)
        else g'.mergeLoop q (hid :: seen) fuel (some hid)
      else some (g, cur.isNone)

/-- `InsertQuad` -/
def Grid.insert (g : Grid) (q : Quad) : Option Grid := do
  let minPoint := q.center.sub q.extents
  let maxPoint := q.center.add q.extents
  let g ← g.expand minPoint
  let g ← g.expand maxPoint
  let (g, append) ← g.mergeLoop q [] 64 none
  if append then
    let s' ← g.spanIn q
    let id := g.quads.size
    let cells ← register g.cells id s'
    pure { g with cells, quads := g.quads.push q, planeCount := g.planeCount + 1, spans := g.spans.push s',
                  spanChecks := g.spanChecks + 1, spanDrift := g.spanDrift + (if g.inside s' then 0 else 1) }
  else pure g

/-- `GetRegion` (with the guard for an empty clamped box): the distinct quad ids of the covered cells -/
def Grid.region (g : Grid) (mn mx : V3) : Option (List Nat) :=
  let f64max (a b : Float32) : Float32 := (if a.toFloat > b.toFloat || a.toFloat.isNaN then a.toFloat else b.toFloat).toFloat32
  let f64min (a b : Float32) : Float32 := (if a.toFloat < b.toFloat || a.toFloat.isNaN then a.toFloat else b.toFloat).toFloat32
  let mn : V3 := ⟨f64max mn.x g.min.x, 0, f64max mn.z g.min.z⟩
  let mx : V3 := ⟨f64min mx.x g.max.x, 0, f64min mx.z g.max.z⟩
  if !(mn.x <= mx.x) || !(mn.z <= mx.z) then some [] else do
  let minX ← cellU mn.x g.min.x g.res
  let minY ← cellU mn.z g.min.z g.res
  let maxX ← cellU mx.x g.min.x g.res
  let maxY ← cellU mx.z g.min.z g.res
  regionIds g.cells minX minY maxX maxY

end Hagall.Grid
