/-
  Layer C for the state a newcomer is handed while the others keep writing (finding F32): any number of writers, each
  applying one change to the session (writer `c` adds the element `c`) and then relaying it, and one participant joining -
  interleaved at the granularity of the critical sections involved.

    writer     W1  the change is applied to the store (under the store's lock)
               W2  Session.Broadcast: the relay is handed to the participants of that moment (participants read lock)
    newcomer   N1  Session.AddParticipant: from now on it is sent the session's broadcasts
               N2  Session.Exclusive: the state is read and sent to it in one critical section under the participants
                   write lock - no relay is handed over between the two
                   (`split = true` is the code before the repair F32: N2 reads the state, N3 sends it, relays may come between)

  What the newcomer's view is: messages reach it in the order they were sent; a state message replaces the view, a relay
  adds its element.
-/
namespace Hagall.Newcomer

inductive Item where
  | state (l : List Nat)
  | relay (w : Nat)
deriving Repr, DecidableEq, Inhabited

structure St where
  applied : List Nat := []           -- the session's state: the changes applied so far
  w : Nat → Nat := fun _ => 0        -- a writer: 0 before W1, 1 between W1 and W2, 2 done
  n : Nat := 0                       -- the newcomer: 0 outside, 1 member, 2 has read the state (split only), 3 handed the state
  snap : List Nat := []              -- split only: what N2 read
  inbox : List Item := []            -- what the newcomer was sent, in order

inductive Move where
  | writer (c : Nat)
  | newcomer
deriving Repr, DecidableEq, Inhabited

def St.setW (s : St) (c v : Nat) : St := { s with w := fun x => if x = c then v else s.w x }

def step (split : Bool) (s : St) : Move → St
  | .writer c =>
    match s.w c with
    | 0 => ({ s with applied := c :: s.applied } : St).setW c 1
    | 1 => ({ s with inbox := if s.n ≥ 1 then s.inbox ++ [.relay c] else s.inbox } : St).setW c 2
    | _ => s
  | .newcomer =>
    match s.n with
    | 0 => { s with n := 1 }
    | 1 => if split then { s with snap := s.applied, n := 2 } else { s with inbox := s.inbox ++ [.state s.applied], n := 3 }
    | 2 => { s with inbox := s.inbox ++ [.state s.snap], n := 3 }
    | _ => s

def run (split : Bool) (s : St) (ms : List Move) : St := ms.foldl (step split) s

def apply (v : List Nat) : Item → List Nat
  | .state l => l
  | .relay w => if v.contains w then v else w :: v

/-- the newcomer's view after the messages it was sent -/
def view (inbox : List Item) : List Nat := inbox.foldl apply []

end Hagall.Newcomer
