/-
  Layer C for a relay addressed to the participants of a session against their departure: one session, one sender, any
  number of participants that leave (and are then answered their join of another session).

    relay      Session.Broadcast / BroadcastTo: look the recipients up and hand each the message, all under the
               participants read lock - one critical section
    remove     Session.RemoveParticipant (write lock)
    answer     the join response of the session the connection moved to reaches it

  `lookup` / `handOver` are the two halves of BroadcastTo as it was before the repair F22: the recipients were looked up
  under the lock and served after it was released.
-/
namespace Hagall.Relay

inductive Item where
  | relayed      -- a message of the session
  | movedOn      -- the answer to its join elsewhere
deriving Repr, DecidableEq

structure St where
  members : List Nat := []
  inbox : Nat → List Item := fun _ => []
  pending : Option (List Nat) := none     -- old code only: recipients looked up, not served yet
  stage : Nat → Nat := fun _ => 0         -- a participant: 0 in the session, 1 removed, 2 answered elsewhere

inductive Move where
  | relay
  | lookup
  | handOver
  | remove (c : Nat)
  | answer (c : Nat)
deriving Repr, DecidableEq

def serve (s : St) (to : List Nat) : St :=
  { s with inbox := fun c => if to.contains c then s.inbox c ++ [.relayed] else s.inbox c }

def step (s : St) : Move → St
  | .relay => serve s s.members
  | .lookup => if s.pending.isNone then { s with pending := some s.members } else s
  | .handOver => match s.pending with
    | some to => { serve s to with pending := none }
    | none => s
  | .remove c =>
    if s.stage c = 0 then { s with members := s.members.filter (· != c), stage := fun x => if x = c then 1 else s.stage x } else s
  | .answer c =>
    if s.stage c = 1 then
      { s with inbox := fun x => if x = c then s.inbox c ++ [.movedOn] else s.inbox x, stage := fun x => if x = c then 2 else s.stage x }
    else s

def run (s : St) (ms : List Move) : St := ms.foldl step s

/-- the moves of the code as it is: the relay is one critical section -/
def Move.current : Move → Bool
  | .lookup | .handOver => false
  | _ => true

end Hagall.Relay
