/-
  Hagall model, layer S: one session and the request handlers that need nothing but the session
  (`websocket/realtime.go`, `models/session.go`, `models/entity.go`, `modules/*`).
  Faithful, not tidy: where the Go code dereferences nil the model returns `Outcome.panic`.
-/
import Hagall.Model.Types
namespace Hagall

/-- `models.SignedLatency` (one per participant, i.e. per join). -/
structure Lat where
  started : Bool := false           -- PingRequests map allocated
  rid : Nat := 0
  iter : Nat := 0                   -- uint32, wraps
  open_ : List Nat := []            -- ids of the pings issued and not yet answered (End unset)
  done : List Nat := []             -- ids of the pings answered
  uuid : Nat := 0
  wallet : String := ""
deriving DecidableEq, Repr, Inhabited

structure Part where
  pid : Nat
  conn : Nat
deriving DecidableEq, Repr, Inhabited

structure Session where
  id : Nat
  uuid : Nat
  pidCur : Nat := 0
  parts : List Part := []
  eidCur : Nat := 0
  ents : List Entity := []
  tidCur : Nat := 0
  types : List (Nat × String) := []     -- (type id, name), registration order
  comps : List Comp := []
  subs : List (Nat × Nat) := []         -- (type id, participant id)
  actions : List Action := []           -- vikja state
  assetCur : Nat := 0                   -- odal state
  assets : List Asset := []
  quads : List String := []             -- dagaz: samples accepted since the grid was last created
  lats : List (Nat × Lat) := []         -- participant id ↦ its SignedLatency record (absent = zero value)
deriving DecidableEq, Repr, Inhabited

abbrev Res := Session × List Delivery × Outcome

/-! ### small helpers -/

def dedupNat : List Nat → List Nat
  | [] => []
  | x :: xs => x :: (dedupNat xs).filter (· != x)

def gate (cfg : Cfg) (flag : String) (ds : List Delivery) : List Delivery :=
  if cfg.flags.contains flag then [] else ds

def Session.findEnt (s : Session) (eid : Nat) : Option Entity := s.ents.find? (·.id == eid)
def Session.findPart (s : Session) (pid : Nat) : Option Part := s.parts.find? (·.pid == pid)
def Session.pids (s : Session) : List Nat := s.parts.map (·.pid)

/-- `Session.Broadcast`: everyone but the sender. -/
def Session.bcast (s : Session) (sender : Nat) (m : Out) : List Delivery :=
  (s.parts.filter (·.pid != sender)).map fun p => (p.conn, m)

/-- `Session.BroadcastTo`: the named participants that exist, once each, never the sender. -/
def Session.bcastTo (s : Session) (sender : Nat) (m : Out) (pids : List Nat) : List Delivery :=
  ((dedupNat pids).filter (· != sender)).filterMap fun i => (s.findPart i).map fun p => (p.conn, m)

def Session.subscribers (s : Session) (tid : Nat) : List Nat :=
  (s.subs.filter (·.1 == tid)).map (·.2)

def Session.typeName (s : Session) (tid : Nat) : Option String :=
  (s.types.find? (·.1 == tid)).map (·.2)
def Session.typeId (s : Session) (name : String) : Option Nat :=
  (s.types.find? (·.2 == name)).map (·.1)
def Session.findComp (s : Session) (tid eid : Nat) : Option Comp :=
  s.comps.find? fun c => c.tid == tid && c.eid == eid

def Session.latOf (s : Session) (pid : Nat) : Lat :=
  ((s.lats.find? (·.1 == pid)).map (·.2)).getD {}

def Session.setLat (s : Session) (pid : Nat) (l : Lat) : Session :=
  { s with lats := (s.lats.filter (·.1 != pid)) ++ [(pid, l)] }

def wrapDec (n : Nat) : Nat := if n = 0 then 4294967295 else n - 1

/-! ### core handlers that need a joined participant `p` of session `s` -/

def Session.entityAdd (cfg : Cfg) (s : Session) (p : Part) (rid ots : Nat) (persist : Bool)
    (flag : Nat) (pose : Option Nat) : Res :=
  let e : Entity := { id := s.eidCur + 1, owner := p.pid, persist, flag, pose := pose.getD 0 }
  let s' := { s with eidCur := s.eidCur + 1, ents := s.ents ++ [e] }
  (s', (p.conn, Out.entityAddResp rid e.id) ::
        gate cfg fEntityAdd (s'.bcast p.pid (.entityAddBcast ots e.view)), .ok)

def Session.removeEntity (s : Session) (eid : Nat) : Session :=
  { s with comps := s.comps.filter (·.eid != eid), ents := s.ents.filter (·.id != eid) }

def Session.entityDelete (cfg : Cfg) (s : Session) (p : Part) (rid ots eid : Nat) : Res :=
  match s.findEnt eid with
  | none => (s, [(p.conn, .error rid ecNotFound)], .ok)
  | some e =>
    if e.owner != p.pid then (s, [(p.conn, .error rid ecUnauthorized)], .ok)
    else
      let s' := s.removeEntity e.id
      (s', (p.conn, Out.entityDeleteResp rid) ::
            gate cfg fEntityDelete (s'.bcast p.pid (.entityDeleteBcast (some ots) e.id)), .ok)

def Session.updatePose (cfg : Cfg) (s : Session) (p : Part) (ots eid : Nat) (pose : Option Nat) : Res :=
  match s.findEnt eid with
  | none => (s, [], .ok)
  | some e =>
    if e.owner != p.pid then (s, [], .ok)
    else match pose with
      | none => (s, [], .ok)            -- no pose: dropped
      | some v =>
        let s' := { s with ents := s.ents.map fun x => if x.id == e.id then { x with pose := v } else x }
        (s', gate cfg fPose (s'.bcast p.pid (.poseBcast ots e.id v)), .ok)

def Session.custom (cfg : Cfg) (s : Session) (p : Part) (ots : Nat) (pids : List Nat) (body : Bytes) : Res :=
  if body.length > customMessageMaxSize then (s, [(p.conn, .error 0 ecTooLarge)], .ok)
  else
    let m := Out.customBcast ots p.pid body
    (s, gate cfg fCustom (if pids.length != 0 then s.bcastTo p.pid m pids else s.bcast p.pid m), .ok)

def Session.typeAdd (s : Session) (p : Part) (rid : Nat) (name : String) : Res :=
  match s.typeId name with
  | some t => (s, [(p.conn, .typeAddResp rid t)], .ok)
  | none =>
    let t := s.tidCur + 1
    ({ s with tidCur := t, types := s.types ++ [(t, name)] }, [(p.conn, .typeAddResp rid t)], .ok)

def Session.compAdd (cfg : Cfg) (s : Session) (p : Part) (rid ots tid eid : Nat) (data : Bytes) : Res :=
  match s.findEnt eid with
  | none => (s, [(p.conn, .error rid ecNotFound)], .ok)
  | some e =>
    if (s.typeName tid).isNone then (s, [(p.conn, .error rid ecNotFound)], .ok)
    else if (s.findComp tid e.id).isSome then (s, [(p.conn, .error rid ecConflict)], .ok)
    else
      let c : Comp := ⟨tid, e.id, data⟩
      let s' := { s with comps := s.comps ++ [c] }
      (s', (p.conn, Out.compAddResp rid) ::
        gate cfg fCompAdd (if (s.subscribers tid).isEmpty then [] else s.bcast p.pid (.compAddBcast ots c)), .ok)

def Session.compDelete (cfg : Cfg) (s : Session) (p : Part) (rid ots tid eid : Nat) : Res :=
  match s.findEnt eid with
  | none => (s, [(p.conn, .error rid ecNotFound)], .ok)
  | some e =>
    if (s.findComp tid e.id).isNone then (s, [(p.conn, .error rid ecNotFound)], .ok)
    else
      let s' := { s with comps := s.comps.filter fun c => !(c.tid == tid && c.eid == e.id) }
      (s', gate cfg fCompDelete
              (if (s.subscribers tid).isEmpty then [] else s.bcast p.pid (.compDeleteBcast ots tid e.id))
            ++ [(p.conn, Out.compDeleteResp rid)], .ok)

def Session.compUpdate (cfg : Cfg) (s : Session) (p : Part) (ots tid eid : Nat) (data : Bytes) : Res :=
  match s.findEnt eid with
  | none => (s, [], .ok)
  | some e =>
    let c : Comp := ⟨tid, e.id, data⟩
    -- `Update` fails when the component was never added: nothing changes, nothing is relayed
    if (s.findComp tid e.id).isNone then (s, [], .ok) else
    let s' := { s with comps := s.comps.map fun x => if x.tid == tid && x.eid == e.id then c else x }
    let subs := s.subscribers tid
    (s', gate cfg fCompUpdate (if subs.isEmpty then [] else s.bcastTo p.pid (.compUpdateBcast ots c) subs), .ok)

def Session.subscribe (s : Session) (p : Part) (rid tid : Nat) : Res :=
  if (s.typeName tid).isNone then (s, [(p.conn, .error rid ecNotFound)], .ok)
  else
    let s' := if s.subs.contains (tid, p.pid) then s else { s with subs := s.subs ++ [(tid, p.pid)] }
    (s', [(p.conn, .subscribeResp rid)], .ok)

def Session.unsubscribe (s : Session) (p : Part) (rid tid : Nat) : Res :=
  ({ s with subs := s.subs.filter (· != (tid, p.pid)) }, [(p.conn, .unsubscribeResp rid)], .ok)

/-! ### signed latency (`models/signed_latency.go`) -/

/-- `sendPingRequest`: a new map entry with only the start time (an id that is already a key is reset) -/
def Lat.sendPing (l : Lat) (conn id : Nat) : Lat × List Delivery :=
  ({ l with open_ := if l.open_.contains id then l.open_ else l.open_ ++ [id], done := l.done.filter (· != id) },
   [(conn, .pingReq id)])

/-- a measurement that is still running is given up for the new one: its request is answered too (CONFLICT) -/
def Session.abandoned (s : Session) (p : Part) : List Delivery :=
  if (s.latOf p.pid).started && (s.latOf p.pid).iter > 0 then [(p.conn, .error (s.latOf p.pid).rid ecConflict)] else []

def Session.latencyStart (s : Session) (p : Part) (rid iter : Nat) (wallet : String) (hint : Nat) : Res :=
  let l : Lat := { started := true, rid, iter, open_ := [], done := [], uuid := s.uuid, wallet }
  let (l', ds) := l.sendPing p.conn hint
  (s.setLat p.pid l', s.abandoned p ++ ds, .ok)

def Session.onPing (s : Session) (p : Part) (rid hint : Nat) : Res :=
  let l := s.latOf p.pid
  -- unknown id, or one that was answered before: refused, nothing advances
  if !(l.open_.contains rid) then (s, [(p.conn, .error rid ecInternal)], .ok)
  else
    let l := { l with iter := wrapDec l.iter, open_ := l.open_.filter (· != rid), done := l.done ++ [rid] }
    if l.iter > 0 then
      let (l', ds) := l.sendPing p.conn hint
      (s.setLat p.pid l', ds, .ok)
    else
      (s.setLat p.pid l,
       [(p.conn, .latencyResp l.rid (l.open_ ++ l.done).length (l.open_ ++ l.done) l.uuid l.wallet)], .ok)

/-! ### the core switch of `handler.handleMessage` for a joined connection
    (join, ping and receipt are handled at server level) -/

def Session.core (cfg : Cfg) (s : Session) (p : Part) (r : Req) (hint : Nat) : Res :=
  match r with
  | .pingResp rid => s.onPing p rid hint
  | .signedLatency rid iter wallet =>
    if iter < latencyMinIter || iter > latencyMaxIter then (s, [(p.conn, .error rid ecBadRequest)], .ok)
    else if wallet == "" then (s, [(p.conn, .error rid ecBadRequest)], .ok)
    else s.latencyStart p rid iter wallet hint
  | .entityAdd rid ots persist flag pose => s.entityAdd cfg p rid ots persist flag pose
  | .entityDelete rid ots eid => s.entityDelete cfg p rid ots eid
  | .updatePose ots eid pose => s.updatePose cfg p ots eid pose
  | .custom ots pids body => s.custom cfg p ots pids body
  | .typeAdd rid name =>
    if name == "" then (s, [(p.conn, .error rid ecBadRequest)], .ok) else s.typeAdd p rid name
  | .typeGetName rid tid =>
    if tid == 0 then (s, [(p.conn, .error rid ecBadRequest)], .ok)
    else match s.typeName tid with
      | some n => (s, [(p.conn, .typeNameResp rid n)], .ok)
      | none => (s, [(p.conn, .error rid ecNotFound)], .ok)
  | .typeGetId rid name =>
    if name == "" then (s, [(p.conn, .error rid ecBadRequest)], .ok)
    else match s.typeId name with
      | some t => (s, [(p.conn, .typeIdResp rid t)], .ok)
      | none => (s, [(p.conn, .error rid ecNotFound)], .ok)
  | .compAdd rid ots tid eid data =>
    if tid == 0 || eid == 0 then (s, [(p.conn, .error rid ecBadRequest)], .ok)
    else s.compAdd cfg p rid ots tid eid data
  | .compDelete rid ots tid eid =>
    if tid == 0 || eid == 0 then (s, [(p.conn, .error rid ecBadRequest)], .ok)
    else s.compDelete cfg p rid ots tid eid
  | .compUpdate ots tid eid data =>
    if tid == 0 || eid == 0 then (s, [], .ok) else s.compUpdate cfg p ots tid eid data
  | .compList rid tid =>
    if tid == 0 then (s, [(p.conn, .error rid ecBadRequest)], .ok)
    else (s, [(p.conn, .compListResp rid (s.comps.filter (·.tid == tid)))], .ok)
  | .subscribe rid tid =>
    if tid == 0 then (s, [(p.conn, .error rid ecBadRequest)], .ok) else s.subscribe p rid tid
  | .unsubscribe rid tid =>
    if tid == 0 then (s, [(p.conn, .error rid ecBadRequest)], .ok) else s.unsubscribe p rid tid
  | .undecodable ty => (s, [], if ty < 100 then .connError else .ok)
  | _ => (s, [], .ok)       -- module message types, unknown types: not in the core switch

/-! ### modules (`modules/vikja`, `modules/odal`, `modules/dagaz`) for non-join messages -/

def Session.setAction (s : Session) (a : Action) : Session :=
  if s.actions.any (fun x => x.eid == a.eid && x.name == a.name) then
    { s with actions := s.actions.map fun x => if x.eid == a.eid && x.name == a.name then a else x }
  else { s with actions := s.actions ++ [a] }

/-- is the stored action of the same entity and name strictly newer than `a`? -/
def Session.actionOlder (s : Session) (a : Action) : Bool :=
  match s.actions.find? (fun x => x.eid == a.eid && x.name == a.name), a.ts with
  | some old, some t => (match old.ts with | some t0 => t.before t0 | none => false)
  | _, _ => false

/-- the three validation steps of `handleSetEntityAction` (each refuses with BAD_REQUEST) -/
def Session.actionOk (s : Session) (a : Action) : Bool :=
  !(a.name == "" || a.ts.isNone) && (s.findEnt a.eid).isSome && !s.actionOlder a

def Session.vikja (s : Session) (p : Part) (r : Req) : Res :=
  match r with
  | .entityDelete _ _ eid =>
    if (s.findEnt eid).isNone then ({ s with actions := s.actions.filter (·.eid != eid) }, [], .ok)
    else (s, [], .ok)
  | .action rid ots act =>
    match act with
    | none => (s, [(p.conn, .error rid ecBadRequest)], .ok)
    | some a =>
      if s.actionOk a then
        let s' := s.setAction a
        (s', (p.conn, Out.actionResp rid) :: s'.bcast p.pid (.actionBcast ots a), .ok)
      else (s, [(p.conn, .error rid ecBadRequest)], .ok)
  | .undecodable ty => (s, [], if ty == 101 then .connError else .ok)
  | _ => (s, [], .ok)

def Session.setAsset (s : Session) (a : Asset) : Session :=
  if s.assets.any (·.eid == a.eid) then
    { s with assets := s.assets.map fun x => if x.eid == a.eid then a else x }
  else { s with assets := s.assets ++ [a] }

def Session.odal (s : Session) (p : Part) (r : Req) : Res :=
  match r with
  | .entityDelete _ _ eid =>
    if (s.findEnt eid).isNone then ({ s with assets := s.assets.filter (·.eid != eid) }, [], .ok)
    else (s, [], .ok)
  | .assetAdd rid ots assetId eid =>
    if assetId == "" then (s, [(p.conn, .error rid ecBadRequest)], .ok)
    else match s.findEnt eid with
      | none => (s, [(p.conn, .error rid ecNotFound)], .ok)
      | some e =>
        if e.owner != p.pid then (s, [(p.conn, .error rid ecUnauthorized)], .ok)
        else
          let a : Asset := { id := s.assetCur + 1, assetId, pid := p.pid, eid := e.id }
          let s' := { s with assetCur := s.assetCur + 1 }.setAsset a
          (s', (p.conn, Out.assetAddResp rid a.id) :: s'.bcast p.pid (.assetAddBcast ots a), .ok)
  | .undecodable ty => (s, [], if ty == 201 then .connError else .ok)
  | _ => (s, [], .ok)

def Session.dagaz (s : Session) (p : Part) (r : Req) : Res :=
  match r with
  | .quadSample qs => ({ s with quads := s.quads ++ qs }, [], .ok)
  | .groundPlane rid _ => (s, [(p.conn, .groundPlaneResp rid)], .ok)
  | .region rid _ => (s, [(p.conn, .regionResp rid)], .ok)
  | .debugInfo rid => (s, [(p.conn, .debugInfoResp rid)], .ok)
  | .undecodable ty => (s, [], if ty ≥ 300 && ty ≤ 305 then .connError else .ok)
  | _ => (s, [], .ok)

/-- run `f` after a step that ended `.ok`, accumulating deliveries -/
def Res.andThen (r : Res) (f : Session → Res) : Res :=
  match r with
  | (s, ds, .ok) => let (s', ds', o) := f s; (s', ds ++ ds', o)
  | r => r

/-- the module pass of `handleMessage`: each loaded module in the order vikja, odal, dagaz;
    a module error ends the pass (and the connection) -/
def Session.modules (cfg : Cfg) (s : Session) (p : Part) (r : Req) : Res :=
  Res.andThen (Res.andThen (Res.andThen (s, [], .ok)
    fun s => if cfg.vikja then s.vikja p r else (s, [], .ok))
    fun s => if cfg.odal then s.odal p r else (s, [], .ok))
    fun s => if cfg.dagaz then s.dagaz p r else (s, [], .ok)

/-- `handleMessage` for a joined participant and a non-join, non-receipt, non-ping message:
    the core handler, then the module pass. -/
def Session.handle (cfg : Cfg) (s : Session) (p : Part) (r : Req) (hint : Nat) : Res :=
  Res.andThen (s.core cfg p r hint) fun s => s.modules cfg p r

/-! ### departure (`leaveSession`) at session level -/

/-- entities the leaver owns that are not persistent -/
def Session.doomed (s : Session) (pid : Nat) : List Entity :=
  s.ents.filter fun e => e.owner == pid && !e.persist

/-- The whole of `leaveSession` except the registry part: the modules' disconnect hooks, the end of the
    leaver's subscriptions, the removal of its non-persistent entities with their components (one delete
    broadcast each, while the leaver is still a participant and therefore skipped), the removal of the
    participant and the leave broadcast. -/
def Session.leave (cfg : Cfg) (s : Session) (pid : Nat) : Session × List Delivery :=
  let dead := (s.doomed pid).map (·.id)
  let s1 : Session :=
    { s with actions := if cfg.vikja then s.actions.filter (fun a => !dead.contains a.eid) else s.actions,
             assets := if cfg.odal then s.assets.filter (fun a => !dead.contains a.eid) else s.assets,
             subs := s.subs.filter (·.2 != pid),
             comps := s.comps.filter (fun c => !dead.contains c.eid),
             ents := s.ents.filter (fun e => !(e.owner == pid && !e.persist)) }
  let ds := dead.flatMap fun eid => gate cfg fEntityDelete (s1.bcast pid (.entityDeleteBcast none eid))
  let s2 := { s1 with parts := s1.parts.filter (·.pid != pid), lats := s1.lats.filter (·.1 != pid) }
  (s2, ds ++ gate cfg fLeave (s2.bcast pid (.leaveBcast pid)))

end Hagall
