/-
  Hagall model, layer S: data types.
  Core Lean only (this file is linked into the native driver).

  Conventions
  * ids are plain `Nat` (never an `abbrev`, `omega` must see through them);
  * payloads the server never inspects (pose, component data, custom body, action data,
    quad / ray / point coordinates) are opaque tokens: `Nat` for a pose bit pattern
    (0 = the zero pose), `List UInt8` for byte strings, `String` for dagaz coordinates;
  * origin timestamps are `Nat` seconds chosen by the harness; a server-generated
    "now" is `none`.
-/
namespace Hagall

abbrev Bytes := List UInt8

/-- What a client can see of an entity (`hagallpb.Entity` has no persist field). -/
structure EntityView where
  id : Nat
  owner : Nat
  flag : Nat
  pose : Nat
deriving DecidableEq, Repr, Inhabited

structure Entity where
  id : Nat
  owner : Nat
  persist : Bool
  flag : Nat
  pose : Nat
deriving DecidableEq, Repr, Inhabited

def Entity.view (e : Entity) : EntityView := ⟨e.id, e.owner, e.flag, e.pose⟩

structure Comp where
  tid : Nat
  eid : Nat
  data : Bytes
deriving DecidableEq, Repr, Inhabited

/-- protobuf timestamp (seconds, nanos) -/
structure Ts where
  secs : Int
  nanos : Int
deriving DecidableEq, Repr, Inhabited

/-- the instant a client timestamp names: seconds + nanos / 1e9 with the nanoseconds brought into [0, 1e9), whatever the
    nanos field holds (an int32; nothing refuses a timestamp that is not normalised).  Exact: the integers here are
    unbounded; `instant` in modules/vikja/state.go returns the same instant as periods of four seconds and nanoseconds
    into the period so that nothing overflows (`Ts.key`, `Props/C16.key_order`) -/
def Ts.instant (t : Ts) : Int × Int := (t.secs + t.nanos / 1000000000, t.nanos % 1000000000)

/-- what `instant` in modules/vikja/state.go computes: `period, rest := sec>>2, sec&3+q; period += rest>>2; rest &= 3;
    return period, rest*1e9 + nanos` (shifts and masks of two's-complement integers are floor division and remainder) -/
def Ts.key (t : Ts) : Int × Int :=
  let q := t.nanos / 1000000000
  let rest := t.secs % 4 + q
  (t.secs / 4 + rest / 4, (rest % 4) * 1000000000 + t.nanos % 1000000000)

/-- the order of two client timestamps: that of their instants (`older` in modules/vikja/state.go; before the repair F43
    the code compared `time.Time` values, which wrap for seconds near the top of the int64 range; between F43 and its
    corrections it compared the fields as they are, which is another order when a nanos field is not normalised, then
    saturated the seconds, which is another order at the two ends of the range) -/
def Ts.before (a b : Ts) : Bool :=
  a.instant.1 < b.instant.1 || (a.instant.1 == b.instant.1 && a.instant.2 < b.instant.2)

structure Action where
  eid : Nat
  name : String
  ts : Option Ts
  data : Bytes
deriving DecidableEq, Repr, Inhabited

structure Asset where
  id : Nat
  assetId : String
  pid : Nat
  eid : Nat
deriving DecidableEq, Repr, Inhabited

inductive JoinTarget
  | new                 -- empty session id: create
  | id (n : Nat)        -- the global id of local session number n on this server
  | bogus               -- any other string: never resolves
deriving DecidableEq, Repr, Inhabited

/-- Decoded client-to-server messages: one constructor per message type the server implements. -/
inductive Req
  | ping (rid : Nat)
  | pingResp (rid : Nat)
  | signedLatency (rid iter : Nat) (wallet : String)
  | join (rid ots : Nat) (target : JoinTarget)
  | entityAdd (rid ots : Nat) (persist : Bool) (flag : Nat) (pose : Option Nat)
  | entityDelete (rid ots eid : Nat)
  | updatePose (ots eid : Nat) (pose : Option Nat)
  | custom (ots : Nat) (pids : List Nat) (body : Bytes)
  | typeAdd (rid : Nat) (name : String)
  | typeGetName (rid tid : Nat)
  | typeGetId (rid : Nat) (name : String)
  | compAdd (rid ots tid eid : Nat) (data : Bytes)
  | compDelete (rid ots tid eid : Nat)
  | compUpdate (ots tid eid : Nat) (data : Bytes)
  | compList (rid tid : Nat)
  | subscribe (rid tid : Nat)
  | unsubscribe (rid tid : Nat)
  | receipt (rid : Nat) (receipt : Bytes) (hash sig : Bytes)
  | action (rid ots : Nat) (act : Option Action)
  | assetAdd (rid ots : Nat) (assetId : String) (eid : Nat)
  | quadSample (quads : List String)
  | groundPlane (rid : Nat) (ray : String)
  | region (rid : Nat) (box : String)
  | debugInfo (rid : Nat)
  | undecodable (ty : Nat)     -- a known message type whose body does not decode
  | unknown (ty : Nat)         -- a message type nobody handles
deriving DecidableEq, Repr, Inhabited

/-- Server-to-client messages, with the fields a client can observe (server timestamps dropped). -/
inductive Out
  | error (rid code : Nat)
  | pingResp (rid : Nat)
  | pingReq (id : Nat)
  | latencyResp (rid count : Nat) (ids : List Nat) (uuid : Nat) (wallet : String)
  | joinResp (rid sid uuid pid : Nat)
  | sessionState (parts : List Nat) (ents : List EntityView) (comps : List Comp)
  | joinBcast (ots pid : Nat)
  | leaveBcast (pid : Nat)
  | entityAddResp (rid eid : Nat)
  | entityAddBcast (ots : Nat) (e : EntityView)
  | entityDeleteResp (rid : Nat)
  | entityDeleteBcast (ots : Option Nat) (eid : Nat)
  | poseBcast (ots eid pose : Nat)
  | customBcast (ots pid : Nat) (body : Bytes)
  | typeAddResp (rid tid : Nat)
  | typeNameResp (rid : Nat) (name : String)
  | typeIdResp (rid tid : Nat)
  | compAddResp (rid : Nat)
  | compAddBcast (ots : Nat) (c : Comp)
  | compDeleteResp (rid : Nat)
  | compDeleteBcast (ots tid eid : Nat)
  | compUpdateBcast (ots : Nat) (c : Comp)
  | compListResp (rid : Nat) (comps : List Comp)
  | subscribeResp (rid : Nat)
  | unsubscribeResp (rid : Nat)
  | receiptResp (rid : Nat)
  | vikjaState (acts : List Action)
  | actionResp (rid : Nat)
  | actionBcast (ots : Nat) (a : Action)
  | odalState (assets : List Asset)
  | assetAddResp (rid aid : Nat)
  | assetAddBcast (ots : Nat) (a : Asset)
  | groundPlaneResp (rid : Nat)
  | regionResp (rid : Nat)
  | debugInfoResp (rid : Nat)
deriving DecidableEq, Repr, Inhabited

/-- (recipient connection, message) -/
abbrev Delivery := Nat × Out

inductive Outcome
  | ok
  | connError          -- handler returned an error: the connection is ended
  | panic (site : String)
deriving DecidableEq, Repr, Inhabited

-- protocol error codes
def ecBadRequest : Nat := 400
def ecUnauthorized : Nat := 401
def ecNotFound : Nat := 404
def ecConflict : Nat := 409
def ecTooLarge : Nat := 413
def ecAlreadyJoined : Nat := 461
def ecInternal : Nat := 500
def ecTooBusy : Nat := 503

-- feature flag names (obligation: equal to the constants extracted from featureflag/flags.go)
def fSessionState := "DISABLE_SESSION_STATE"
def fJoin := "DISABLE_PARTICIPANT_JOIN_BROADCAST"
def fLeave := "DISABLE_PARTICIPANT_LEAVE_BROADCAST"
def fEntityAdd := "DISABLE_ENTITY_ADD_BROADCAST"
def fEntityDelete := "DISABLE_ENTITY_DELETE_BROADCAST"
def fPose := "DISABLE_ENTITY_UPDATE_POSE_BROADCAST"
def fCustom := "DISABLE_CUSTOM_MESSAGE_BROADCAST"
def fCompAdd := "DISABLE_ENTITY_COMPONENT_ADD_BROADCAST"
def fCompUpdate := "DISABLE_ENTITY_COMPONENT_UPDATE_BROADCAST"
def fCompDelete := "DISABLE_ENTITY_COMPONENT_DELETE_BROADCAST"

/-- The flag (if any) whose message class a server-to-client message belongs to. -/
def Out.flagClass : Out → Option String
  | .sessionState .. => some fSessionState
  | .joinBcast .. => some fJoin
  | .leaveBcast .. => some fLeave
  | .entityAddBcast .. => some fEntityAdd
  | .entityDeleteBcast .. => some fEntityDelete
  | .poseBcast .. => some fPose
  | .customBcast .. => some fCustom
  | .compAddBcast .. => some fCompAdd
  | .compUpdateBcast .. => some fCompUpdate
  | .compDeleteBcast .. => some fCompDelete
  | _ => none

structure Cfg where
  flags : List String := []
  vikja : Bool := true
  odal : Bool := true
  dagaz : Bool := true
  rcap : Nat := 128          -- capacity of the receipt channel (cmd/main.go)
deriving Repr, Inhabited

def customMessageMaxSize : Nat := 10240
def receiptQueueCap : Nat := 128
def latencyMinIter : Nat := 3
def latencyMaxIter : Nat := 50

end Hagall
