/-
  Layer L: the life cycle of one connection handler (`websocket/handler.go`, `handler.Handle` with its sender and
  receiver goroutines, the disconnect-cause channel, the send queue and the scheduler queue).  Only the
  bookkeeping is modelled: which goroutine is alive, how full the three channels are, whether the connection's
  context is cancelled, how often `handleDisconnect` ran.  What the messages are is Layer S.
  `blockingReport = true` is the code before the fix of finding F6 (a blocking send on the cause channel).
  `frameUnderLock = true` is the code before the fix of finding F15: the session's frame worker itself put the
  connection's pending updates on the scheduler queue, holding the session's frame lock, which `handleDisconnect`
  needs (leaveSession -> stopFrameHandling).  Since the fix the session only signals the frame; a goroutine of the
  connection (`startHandlingFrames`, the pump) does the hand-over.
-/
namespace Hagall.Life

structure Caps where
  dq : Nat := 8        -- disconnectChan
  sq : Nat := 512      -- sendChan
  mq : Nat := 256      -- scheduler queue
  blockingReport : Bool := false
  frameUnderLock : Bool := false

inductive Main
  | loop        -- in the select of the main loop
  | stuck       -- blocked for ever on its own cause channel (only with `blockingReport`)
  | winding     -- the loop is left: draining the scheduler queue until both goroutines are gone
  | returned
deriving DecidableEq, Repr

inductive Recv
  | reading     -- blocked in the socket read
  | holding     -- has a message, handing it to the scheduler
  | dead
deriving DecidableEq, Repr

inductive Pump
  | waiting     -- in its select
  | pushing     -- a frame was signalled: handing the scheduler's pending updates to its queue
  | dead
deriving DecidableEq, Repr

structure H where
  main : Main := .loop
  pump : Pump := .waiting
  frameHeld : Bool := false   -- only with `frameUnderLock`: the session's frame worker is blocked on this connection's
                              -- full scheduler queue, holding the session's frame lock
  dq : Nat := 0
  cancelled : Bool := false
  handled : Nat := 0          -- how often handleDisconnect ran
  closed : Bool := false      -- the socket was closed by handleDisconnect
  sender : Bool := true
  sendFailed : Bool := false
  recv : Recv := .reading
  sendq : Nat := 0
  mq : Nat := 0
deriving DecidableEq, Repr

inductive Ev
  -- the client and the network
  | arrive          -- a frame arrives: the receiver has a message to dispatch
  | readFails       -- the socket read fails (client closed, or the server closed the socket)
  | writeDone       -- the sender wrote the head of the send queue
  | writeFails      -- the write failed (peer gone, or the write deadline passed)
  | relayIn         -- another participant's broadcast is queued for this connection
  | frame           -- the session's frame worker reaches this connection while its scheduler holds updates
  -- the handler's own goroutines
  | dispatch        -- receiver: hand the held message to the scheduler
  | recvExit        -- receiver: sees the cancelled context
  | sendDrop        -- sender: after a failed write, take and drop the next queued message
  | sendExit        -- sender: sees the cancelled context, empties the queue, exits
  | pumpPush        -- frame goroutine (or, before F15's fix, the session's frame worker): an update goes on the scheduler queue
  | pumpExit        -- frame goroutine: sees the cancelled context
  | handleOk        -- main loop: take a message, handle it, queue an answer
  | handleErr       -- main loop: take a message, the handler returns an error: report it
  | idle            -- main loop: the idle timer fires: report it
  | takeCause       -- main loop: take a cause: handleDisconnect, cancel, leave the loop
  | drain           -- main, winding down: take and drop a scheduler message
  | finish          -- main, winding down: both goroutines are gone: return
deriving DecidableEq, Repr

/-- report a disconnection cause: never blocks (drops the cause when one is already pending in a full channel) -/
def report (c : Caps) (s : H) : H := if s.dq < c.dq then { s with dq := s.dq + 1 } else s

/-- `none`: the event is not enabled in this state (the goroutine concerned is blocked or gone) -/
def step (c : Caps) (s : H) : Ev → Option H
  | .arrive => if s.recv = .reading ∧ ¬ s.closed then some { s with recv := .holding } else none
  | .readFails => if s.recv = .reading then some { report c s with recv := .dead } else none
  | .dispatch => if s.recv = .holding ∧ s.mq < c.mq then some { s with recv := .reading, mq := s.mq + 1 } else none
  | .recvExit => if s.recv = .reading ∧ s.cancelled then some { s with recv := .dead } else none
  | .writeDone => if s.sender ∧ ¬ s.sendFailed ∧ 0 < s.sendq then some { s with sendq := s.sendq - 1 } else none
  | .writeFails =>
    if s.sender ∧ ¬ s.sendFailed ∧ 0 < s.sendq then some { report c s with sendq := s.sendq - 1, sendFailed := true } else none
  | .sendDrop => if s.sender ∧ s.sendFailed ∧ 0 < s.sendq then some { s with sendq := s.sendq - 1 } else none
  | .sendExit => if s.sender ∧ s.cancelled then some { s with sender := false, sendq := 0 } else none
  -- `handleDisconnect` takes the participant out of its session before the context is cancelled: no relay afterwards
  | .relayIn => if ¬ s.cancelled ∧ s.sendq < c.sq then some { s with sendq := s.sendq + 1 } else none
  -- frames reach the connection only while its participant is in a session, that is until `handleDisconnect`
  | .frame =>
    if s.cancelled then none
    else if c.frameUnderLock then
      if s.frameHeld then none
      else if s.mq < c.mq then some { s with mq := s.mq + 1 } else some { s with frameHeld := true }
    else if s.pump = .waiting then some { s with pump := .pushing } else none
  | .pumpPush =>
    if c.frameUnderLock then
      if s.frameHeld ∧ s.mq < c.mq then some { s with mq := s.mq + 1, frameHeld := false } else none
    else if s.pump = .pushing ∧ s.mq < c.mq then some { s with mq := s.mq + 1, pump := .waiting } else none
  | .pumpExit => if ¬ c.frameUnderLock ∧ s.pump = .waiting ∧ s.cancelled then some { s with pump := .dead } else none
  | .handleOk =>
    if s.main = .loop ∧ ¬ s.cancelled ∧ 0 < s.mq ∧ s.sendq < c.sq then some { s with mq := s.mq - 1, sendq := s.sendq + 1 } else none
  | .handleErr =>
    if s.main = .loop ∧ ¬ s.cancelled ∧ 0 < s.mq then
      if c.blockingReport ∧ s.dq = c.dq then some { s with mq := s.mq - 1, main := .stuck }
      else some { report c s with mq := s.mq - 1 }
    else none
  | .idle =>
    if s.main = .loop ∧ ¬ s.cancelled then
      if c.blockingReport ∧ s.dq = c.dq then some { s with main := .stuck } else some (report c s)
    else none
  | .takeCause =>
    if s.main = .loop ∧ 0 < s.dq then
      -- handleDisconnect leaves the session, which takes the session's frame lock
      if s.frameHeld then some { s with dq := s.dq - 1, main := .stuck }
      else some { s with dq := s.dq - 1, handled := s.handled + 1, closed := true, cancelled := true, main := .winding }
    else none
  | .drain => if s.main = .winding ∧ 0 < s.mq then some { s with mq := s.mq - 1 } else none
  | .finish =>
    if s.main = .winding ∧ ¬ s.sender ∧ s.recv = .dead ∧ (c.frameUnderLock ∨ s.pump = .dead) then some { s with main := .returned } else none

/-- run a schedule; events that are not enabled are skipped -/
def run (c : Caps) (s : H) : List Ev → H
  | [] => s
  | e :: es => run c ((step c s e).getD s) es

/-- the events of the handler's own goroutines that need nothing from the client -/
def Ev.internal : Ev → Bool
  | .dispatch | .recvExit | .sendDrop | .sendExit | .drain | .finish | .readFails | .writeFails | .pumpPush | .pumpExit => true
  | _ => false

end Hagall.Life
