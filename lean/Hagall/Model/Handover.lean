/-
  Layer C for what a newcomer is handed while an entity's owner leaves (finding F23): one entity carrying an action, its
  owner's departure, one participant joining - interleaved at the granularity of the critical sections involved.

    owner      O1  Session.RemoveEntity, then the delete broadcast to the participants of that moment
               O2  the module releases the entity's actions (after O1: F21)
    newcomer   N1  Session.AddParticipant: from now on it is sent the session's broadcasts
               N2  the session state is read for it: it holds the entity iff the entity is there
               N3  the module state is read for it: the action, if the entity is (still) in the session
                   (`filtered = false` is the code before the repair F23: the action whenever the module still holds it)

  What the newcomer's view ends up with: messages reach it in the order they were sent; a delete makes it drop the entity
  and what is attached to it, and remember that the entity is gone (ids are never reissued within a session).
-/
namespace Hagall.Handover

inductive Step where
  | O1 | O2 | N1 | N2 | N3
deriving Repr, DecidableEq

structure St where
  there : Bool := true        -- the entity is in the session
  action : Bool := true       -- the module holds an action of it
  member : Bool := false      -- the newcomer is a participant
  gone : Bool := false        -- the newcomer has been told the entity is deleted
  hasEnt : Bool := false      -- the newcomer's view
  hasAct : Bool := false

def step (filtered : Bool) (s : St) : Step → St
  | .O1 => if s.member then { s with there := false, gone := true, hasEnt := false, hasAct := false } else { s with there := false }
  | .O2 => { s with action := false }
  | .N1 => { s with member := true }
  | .N2 => { s with hasEnt := s.there && !s.gone }
  | .N3 => { s with hasAct := (s.action && (s.there || !filtered)) && !s.gone }

def run (filtered : Bool) (steps : List Step) : St := steps.foldl (step filtered) {}

/-- all the ways to interleave the owner's two critical sections with the newcomer's three, each side in its order -/
def interleavings : List (List Step) :=
  [[.O1, .O2, .N1, .N2, .N3], [.O1, .N1, .O2, .N2, .N3], [.O1, .N1, .N2, .O2, .N3], [.O1, .N1, .N2, .N3, .O2],
   [.N1, .O1, .O2, .N2, .N3], [.N1, .O1, .N2, .O2, .N3], [.N1, .O1, .N2, .N3, .O2],
   [.N1, .N2, .O1, .O2, .N3], [.N1, .N2, .O1, .N3, .O2], [.N1, .N2, .N3, .O1, .O2]]

end Hagall.Handover
