/-
  Line protocol shared with the Go harness: parsing requests, server-to-client messages and events
  from whitespace-separated tokens. Core Lean only.
-/
import Hagall.Model.Server
namespace Hagall.Wire
open Hagall

abbrev P := StateT (List String) Option

def tok : P String := fun s => match s with
  | [] => none
  | t :: ts => some (t, ts)

def peek : P (Option String) := fun s => some (s.head?, s)

def nat : P Nat := do
  let t ← tok
  match t.toNat? with
  | some n => pure n
  | none => failure

def int : P Int := do
  let t ← tok
  match t.toInt? with
  | some n => pure n
  | none => failure

def hexVal (c : Char) : Option Nat :=
  if '0' ≤ c ∧ c ≤ '9' then some (c.toNat - '0'.toNat)
  else if 'a' ≤ c ∧ c ≤ 'f' then some (c.toNat - 'a'.toNat + 10)
  else if 'A' ≤ c ∧ c ≤ 'F' then some (c.toNat - 'A'.toNat + 10)
  else none

def hexBytes : List Char → Option (List UInt8)
  | [] => some []
  | a :: b :: rest => do
    let x ← hexVal a
    let y ← hexVal b
    let r ← hexBytes rest
    pure (UInt8.ofNat (x * 16 + y) :: r)
  | _ => none

def bytes : P Bytes := do
  let t ← tok
  match t.toList with
  | 'x' :: cs => match hexBytes cs with
    | some b => pure b
    | none => failure
  | _ => failure

def str : P String := do
  let b ← bytes
  match String.fromUTF8? (ByteArray.mk b.toArray) with
  | some s => pure s
  | none => failure

def count : P Nat := do
  let t ← tok
  match t.toList with
  | '[' :: cs => match (String.ofList cs).toNat? with
    | some n => pure n
    | none => failure
  | _ => failure

def many {α} (n : Nat) (p : P α) : P (List α) :=
  match n with
  | 0 => pure []
  | k + 1 => do
    let x ← p
    let xs ← many k p
    pure (x :: xs)

def listOf {α} (p : P α) : P (List α) := do
  let n ← count
  many n p

def optNat : P (Option Nat) := do
  let t ← tok
  if t == "-" then pure none else
  match t.toNat? with
  | some n => pure (some n)
  | none => failure

def bool : P Bool := do
  let t ← tok
  pure (t == "1")

def ts : P (Option Ts) := do
  let t ← tok
  if t == "-" then pure none
  else if t == "+" then do
    let s ← int
    let n ← int
    pure (some ⟨s, n⟩)
  else failure

def action : P Action := do
  let eid ← nat
  let name ← str
  let t ← ts
  let data ← bytes
  pure ⟨eid, name, t, data⟩

def comp : P Comp := do
  let t ← nat
  let e ← nat
  let d ← bytes
  pure ⟨t, e, d⟩

def entityView : P EntityView := do
  let id ← nat
  let o ← nat
  let f ← nat
  let p ← nat
  pure ⟨id, o, f, p⟩

def asset : P Asset := do
  let id ← nat
  let a ← str
  let p ← nat
  let e ← nat
  pure ⟨id, a, p, e⟩

def req : P Req := do
  let k ← tok
  match k with
  | "ping" => return .ping (← nat)
  | "pingResp" => return .pingResp (← nat)
  | "signedLatency" => return .signedLatency (← nat) (← nat) (← str)
  | "join" => do
    let rid ← nat
    let ots ← nat
    let t ← tok
    match t with
    | "new" => return .join rid ots .new
    | "bogus" => return .join rid ots .bogus
    | "near" => do let _ ← nat; let _ ← nat; return .join rid ots .bogus   -- almost the id of a live session: names none
    | "id" => return .join rid ots (.id (← nat))
    | _ => failure
  | "entityAdd" => return .entityAdd (← nat) (← nat) (← bool) (← nat) (← optNat)
  | "entityDelete" => return .entityDelete (← nat) (← nat) (← nat)
  | "updatePose" => return .updatePose (← nat) (← nat) (← optNat)
  | "custom" => return .custom (← nat) (← listOf nat) (← bytes)
  | "typeAdd" => return .typeAdd (← nat) (← str)
  | "typeGetName" => return .typeGetName (← nat) (← nat)
  | "typeGetId" => return .typeGetId (← nat) (← str)
  | "compAdd" => return .compAdd (← nat) (← nat) (← nat) (← nat) (← bytes)
  | "compDelete" => return .compDelete (← nat) (← nat) (← nat) (← nat)
  | "compUpdate" => return .compUpdate (← nat) (← nat) (← nat) (← bytes)
  | "compList" => return .compList (← nat) (← nat)
  | "subscribe" => return .subscribe (← nat) (← nat)
  | "unsubscribe" => return .unsubscribe (← nat) (← nat)
  | "receipt" => return .receipt (← nat) (← bytes) (← bytes) (← bytes)
  | "action" => do
    let rid ← nat
    let ots ← nat
    let t ← tok
    if t == "-" then return .action rid ots none
    else return .action rid ots (some (← action))
  | "assetAdd" => return .assetAdd (← nat) (← nat) (← str) (← nat)
  | "quadSample" => return .quadSample (← listOf str)
  | "groundPlane" => return .groundPlane (← nat) (← str)
  | "region" => return .region (← nat) (← str)
  | "debugInfo" => return .debugInfo (← nat)
  | "undecodable" => return .undecodable (← nat)
  | "unknown" => return .unknown (← nat)
  | _ => failure

def out : P Out := do
  let k ← tok
  match k with
  | "error" => return .error (← nat) (← nat)
  | "pingResp" => return .pingResp (← nat)
  | "pingReq" => return .pingReq (← nat)
  | "latencyResp" => return .latencyResp (← nat) (← nat) (← listOf nat) (← nat) (← str)
  | "joinResp" => return .joinResp (← nat) (← nat) (← nat) (← nat)
  | "sessionState" => return .sessionState (← listOf nat) (← listOf entityView) (← listOf comp)
  | "joinBcast" => return .joinBcast (← nat) (← nat)
  | "leaveBcast" => return .leaveBcast (← nat)
  | "entityAddResp" => return .entityAddResp (← nat) (← nat)
  | "entityAddBcast" => return .entityAddBcast (← nat) (← entityView)
  | "entityDeleteResp" => return .entityDeleteResp (← nat)
  | "entityDeleteBcast" => return .entityDeleteBcast (← optNat) (← nat)
  | "poseBcast" => return .poseBcast (← nat) (← nat) (← nat)
  | "customBcast" => return .customBcast (← nat) (← nat) (← bytes)
  | "typeAddResp" => return .typeAddResp (← nat) (← nat)
  | "typeNameResp" => return .typeNameResp (← nat) (← str)
  | "typeIdResp" => return .typeIdResp (← nat) (← nat)
  | "compAddResp" => return .compAddResp (← nat)
  | "compAddBcast" => return .compAddBcast (← nat) (← comp)
  | "compDeleteResp" => return .compDeleteResp (← nat)
  | "compDeleteBcast" => return .compDeleteBcast (← nat) (← nat) (← nat)
  | "compUpdateBcast" => return .compUpdateBcast (← nat) (← comp)
  | "compListResp" => return .compListResp (← nat) (← listOf comp)
  | "subscribeResp" => return .subscribeResp (← nat)
  | "unsubscribeResp" => return .unsubscribeResp (← nat)
  | "receiptResp" => return .receiptResp (← nat)
  | "vikjaState" => return .vikjaState (← listOf action)
  | "actionResp" => return .actionResp (← nat)
  | "actionBcast" => return .actionBcast (← nat) (← action)
  | "odalState" => return .odalState (← listOf asset)
  | "assetAddResp" => return .assetAddResp (← nat) (← nat)
  | "assetAddBcast" => return .assetAddBcast (← nat) (← asset)
  | "groundPlaneResp" => return .groundPlaneResp (← nat)
  | "regionResp" => return .regionResp (← nat)
  | "debugInfoResp" => return .debugInfoResp (← nat)
  | _ => failure

/-- run a parser on a whole token list; `none` unless every token is consumed -/
def parseAll {α} (p : P α) (toks : List String) : Option α :=
  match p toks with
  | some (a, []) => some a
  | _ => none

def words (line : String) : List String :=
  (line.splitOn " ").filter (· ≠ "")

end Hagall.Wire
