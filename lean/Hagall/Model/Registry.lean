/-
  Layer C for the session registry: joins, switches and departures of any number of connections, interleaved at the
  granularity of the critical sections of the Go code.

  What is shared: the registry (`SessionStore.sessions`, under `SessionStore.mutex`), the id source
  (`SequentialIDGenerator`, under its own mutex), and per session object the participants and the `ended` mark (both
  under `Session.participantMutex`).  What a connection's handler does between two of these critical sections
  (answers, relays, module hooks) touches none of them, so one transition below is one critical section:

    lookup     SessionStore.GetByGlobalID                                   (HandleParticipantJoin)
    add        Session.AddParticipant: refused when the session has ended   (HandleParticipantJoin)
    rem        Session.RemoveParticipant: reports whether it was the last   (leaveSession)
    unreg      SessionStore.Remove: delete by id, release the id, gauge - 1 (leaveSession, only when `rem` said last)
    newid      SequentialIDGenerator.New                                    (HandleParticipantJoin, create path)
    register   SessionStore.Add of a session object that already holds its creator; gauge + 1

  The order of these calls inside `HandleParticipantJoin` and `leaveSession` is tied to /repo by the skeleton facts
  (`Gen/ObC07`), the fields each of them touches and the lock it holds by the lock facts (`Props/C09`).
-/
namespace Hagall.Registry

/-- a session object; `id` is the number it is registered under -/
structure Obj where
  id : Nat
  members : List Nat := []     -- connections whose participant is in it
  ended : Bool := false
deriving Repr, DecidableEq, Inhabited

/-- what a handler does once it has left its previous session -/
inductive Then where
  | stop                 -- disconnect: nothing
  | into (o : Nat)       -- it has already taken its place in object `o`
  | create               -- it goes on to create a session
deriving Repr, DecidableEq, Inhabited

/-- where a connection's handler stands: the next critical section it will enter -/
inductive PC where
  | idle (cur : Option Nat)                -- between requests; `cur` is the session object it is in
  | add (cur : Option Nat) (o : Nat)       -- looked `o` up; next: AddParticipant on `o`
  | rem (o : Nat) (k : Then)               -- next: RemoveParticipant on `o`
  | unreg (o : Nat) (k : Then)             -- was the last one of `o`; next: SessionStore.Remove
  | newid                                  -- next: SessionStore.NewID
  | register (i : Nat)                     -- holds the fresh number `i`; next: SessionStore.Add
deriving Repr, DecidableEq, Inhabited

/-- what a client may ask of an idle handler -/
inductive Req where
  | joinId (i : Nat)
  | joinNew
  | disconnect
deriving Repr, DecidableEq, Inhabited

structure St where
  n : Nat := 0                          -- session objects allocated so far: handles 0 .. n-1
  obj : Nat → Obj := fun _ => {id := 0}
  reg : List (Nat × Nat) := []          -- the registry: (number, object handle)
  pool : List Nat := []                 -- released numbers
  cur : Nat := 0                        -- highest number ever issued
  gauge : Int := 0
  pc : Nat → PC := fun _ => .idle none

def Then.next : Then → PC
  | .stop => .idle none
  | .into o => .idle (some o)
  | .create => .newid

def lookup (reg : List (Nat × Nat)) (i : Nat) : Option Nat := (reg.find? fun (p : Nat × Nat) => p.1 == i).map Prod.snd

def St.setPc (s : St) (c : Nat) (p : PC) : St := { s with pc := fun x => if x = c then p else s.pc x }
def St.setObj (s : St) (o : Nat) (v : Obj) : St := { s with obj := fun x => if x = o then v else s.obj x }

/-- the number `New` hands out: some released number when there is one (Go picks by map iteration; `hint` stands for
    that choice), else the next fresh one -/
def pick (pool : List Nat) (cur hint : Nat) : Nat :=
  if hint ∈ pool then hint else match pool with
    | [] => cur + 1
    | x :: _ => x

/-- SessionStore.Remove of the session registered under `i`: delete by number, release the number, gauge - 1 -/
def St.dropReg (s : St) (i : Nat) : St :=
  { s with reg := s.reg.filter (fun (p : Nat × Nat) => p.1 != i), pool := i :: s.pool.filter (· != i), gauge := s.gauge - 1 }

/-- SequentialIDGenerator.New handing out `i` -/
def St.takeId (s : St) (i : Nat) : St :=
  { s with pool := s.pool.filter (· != i), cur := if i ∈ s.pool then s.cur else s.cur + 1 }

/-- a new session object numbered `i` holding its creator `c`, then SessionStore.Add: gauge + 1 -/
def St.addReg (s : St) (i c : Nat) : St :=
  ({ s with n := s.n + 1, reg := (i, s.n) :: s.reg.filter (fun (p : Nat × Nat) => p.1 != i), gauge := s.gauge + 1 } : St).setObj s.n
    { id := i, members := [c], ended := false }

/-- one critical section of connection `c`; `r` is the request an idle handler receives, `hint` the pool choice -/
def step (s : St) (c : Nat) (r : Req) (hint : Nat) : St :=
  match s.pc c with
  | .idle cur =>
    match r with
    | .joinId i =>
      -- already in the session registered under that number: refused
      if (match cur with | some o' => (s.obj o').id == i | none => false) then s else
      match lookup s.reg i with
      | none => s                                   -- NOT_FOUND, nothing changed
      | some o => s.setPc c (.add cur o)
    | .joinNew =>
      match cur with
      | none => s.setPc c .newid
      | some o' => s.setPc c (.rem o' .create)
    | .disconnect =>
      match cur with
      | none => s
      | some o' => s.setPc c (.rem o' .stop)
  | .add cur o =>
    if (s.obj o).ended then s.setPc c (.idle cur)     -- ended since the lookup: NOT_FOUND, nothing changed
    else
      let s := s.setObj o { s.obj o with members := c :: (s.obj o).members }
      match cur with
      | none => s.setPc c (.idle (some o))
      | some o' => s.setPc c (.rem o' (.into o))
  | .rem o k =>
    let ms := (s.obj o).members.filter (· != c)
    if ms.isEmpty then
      (s.setObj o { s.obj o with members := ms, ended := true }).setPc c (.unreg o k)
    else
      (s.setObj o { s.obj o with members := ms }).setPc c k.next
  | .unreg o k => (s.dropReg (s.obj o).id).setPc c k.next
  | .newid => let i := pick s.pool s.cur hint; (s.takeId i).setPc c (.register i)
  | .register i => (s.addReg i c).setPc c (.idle (some s.n))

/-- an interleaving: which connection moves, with which request (used when it is idle) and which pool choice -/
abbrev Move := Nat × Req × Nat

def run (s : St) (ms : List Move) : St := ms.foldl (fun s (m : Move) => step s m.1 m.2.1 m.2.2) s

end Hagall.Registry
