/-
  Layer C for what modules attach to an entity (vikja entity actions): one entity, its owner's departure (or its
  deletion) and any number of participants setting actions on it, interleaved at the granularity of the critical
  sections involved:

    owner    Session.RemoveEntity                     (leaveSession / HandleEntityDelete), then
             State.RemoveEntityActions                (module HandleDisconnect / handleEntityDelete, afterwards)
    setter   Session.EntityByID  (found, else refused)
             State.SetEntityAction
             Session.EntityByID again: gone -> State.RemoveEntityActions and refused; there -> answered and relayed

  `cleanupFirst = true` is the code before the repair F21: the module clean-up ran before the entity was removed and the
  setter did not look again.

  The components of an entity follow the same protocol (F24): Session.RemoveEntity, then
  EntityComponentStore.DeleteByEntityID on the owner's side; Session.EntityByID, EntityComponentStore.Add,
  Session.EntityByID again (gone -> EntityComponentStore.Delete and refused) on the adder's side.  The one difference is
  that `Add` refuses a component that is already there (`refuseDup = true`): the adder is then answered a conflict
  without storing or looking again.  `action` reads "the module / the store holds something for the entity".
-/
namespace Hagall.Attach

inductive SPC where
  | idle      -- between requests
  | checked   -- found the entity; next: store the action
  | stored    -- stored it; next: look again
deriving Repr, DecidableEq, Inhabited

structure St where
  there : Bool := true       -- the entity is in the session
  action : Bool := false     -- the module state holds an action for it
  owner : Nat := 0           -- the owner's handler: 0 before its first critical section, 1 between the two, 2 done
  setter : Nat → SPC := fun _ => .idle

inductive Move where
  | owner
  | setter (c : Nat)
deriving Repr, DecidableEq, Inhabited

def St.set (s : St) (c : Nat) (p : SPC) : St := { s with setter := fun x => if x = c then p else s.setter x }

def step (cleanupFirst refuseDup : Bool) (s : St) : Move → St
  | .owner =>
    if cleanupFirst then
      match s.owner with
      | 0 => { s with action := false, owner := 1 }
      | 1 => { s with there := false, owner := 2 }
      | _ => s
    else
      match s.owner with
      | 0 => { s with there := false, owner := 1 }
      | 1 => { s with action := false, owner := 2 }
      | _ => s
  | .setter c =>
    match s.setter c with
    | .idle => if s.there then s.set c .checked else s
    | .checked =>
      if refuseDup && s.action then s.set c .idle else
      if cleanupFirst then ({ s with action := true } : St).set c .idle else ({ s with action := true } : St).set c .stored
    | .stored => if s.there then s.set c .idle else ({ s with action := false } : St).set c .idle

def run (cleanupFirst refuseDup : Bool) (s : St) (ms : List Move) : St := ms.foldl (step cleanupFirst refuseDup) s

end Hagall.Attach
