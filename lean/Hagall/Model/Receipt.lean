/-
  The validity of a receipt (C19): `receipt/handler.go VerifyPayload`.  What matters of one submitted triple (text, hash,
  signature) is four facts; the two that are cryptography are oracles computed by the harness with go-ethereum
  (`hashOk`: the hash is the Keccak-256 of the text; `recovers`: a public key is recovered from the signature over the
  hash by the linked implementation of `Ecrecover`).  The other two are stated here because the implementations of
  `Ecrecover` differ on them (finding F42): the signature is 65 bytes, r || s || v, and the recovery id v is 0 to 3.
-/
namespace Hagall.Receipt

structure Triple where
  hashOk : Bool
  sigLen : Nat
  recId : Nat          -- the last byte of the signature when it has 65 bytes
  recovers : Bool
deriving Repr, DecidableEq, Inhabited

/-- `VerifyPayload` returns nil -/
def wellFormed (t : Triple) : Bool := t.hashOk && t.sigLen == 65 && t.recId ≤ 3 && t.recovers

/-- `HandleReceipts`: what is taken out of the queue is forwarded when it is well formed, dropped otherwise -/
def forwards (q : List Triple) : List Triple := q.filter wellFormed

end Hagall.Receipt
