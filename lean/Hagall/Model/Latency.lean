/-
  Signed latency statistics (`models/signed_latency.go`, the computation at the end of `OnPing`) over
  natural-number latencies in microseconds.  float32 holds integers below 2^24 exactly, so for such
  latencies the Go computation and this one coincide (checked by the STAT correspondence).
-/
namespace Hagall.Latency

def minL : List Nat → Nat
  | [] => 0
  | [x] => x
  | x :: xs => min x (minL xs)

def maxL : List Nat → Nat
  | [] => 0
  | x :: xs => max x (maxL xs)

def sumL : List Nat → Nat
  | [] => 0
  | x :: xs => x + sumL xs

/-- `math.Round(sum / n)`: round half away from zero, on non-negative rationals -/
def roundDiv (s n : Nat) : Nat := (2 * s + n) / (2 * n)

/-- insertion sort (what `sort.Slice` yields, as a list) -/
def insertSorted (x : Nat) : List Nat → List Nat
  | [] => [x]
  | y :: ys => if x ≤ y then x :: y :: ys else y :: insertSorted x ys

def sortL : List Nat → List Nat
  | [] => []
  | x :: xs => insertSorted x (sortL xs)

/-- `index := int(float32(len) * 0.95); if index < len && index > 0 { p95 = sorted[index-1] }`;
    for 1 ≤ len ≤ 50 the float32 product truncates to `len * 95 / 100` -/
def p95 (ls : List Nat) : Nat :=
  let idx := ls.length * 95 / 100
  if idx < ls.length ∧ idx > 0 then (sortL ls).getD (idx - 1) 0 else 0

structure Stats where
  min : Nat
  max : Nat
  mean : Nat
  p95 : Nat
  last : Nat
deriving DecidableEq, Repr

/-- the statistics of a completed measurement: `ls` are the round latencies in any order, `last` the
    latency of the final round -/
def stats (ls : List Nat) (last : Nat) : Stats :=
  { min := minL ls, max := maxL ls, mean := roundDiv (sumL ls) ls.length, p95 := p95 ls, last }

end Hagall.Latency
