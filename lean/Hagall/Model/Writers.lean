/-
  Layer C for two or more participants writing one item (a component of one type and entity, an entity's action of one
  name) while a member listens: the write is applied under the store's lock and relayed afterwards, outside it.

    apply w    EntityComponentStore.Update / Add / Delete, vikja.State.SetEntityActionIfLatest (the store's write lock)
    relay w    EntityComponentStore.Notify -> Session.Broadcast / BroadcastTo, Session.Broadcast (after the lock is released)
    write w    both in one critical section - what the code does NOT do; `Props/C01Conc` shows that it would make the
               listener's view follow the server's state, and that the split does not (finding F26)
-/
namespace Hagall.Writers

structure St where
  srv : Option Nat := none            -- the value the server holds for the item
  view : Option Nat := none           -- the value the listening member holds
  pending : List (Nat × Nat) := []    -- (writer, value) applied, not relayed yet

inductive Move where
  | apply (w v : Nat)
  | relay (w : Nat)
  | write (w v : Nat)
deriving Repr, DecidableEq

def step (s : St) : Move → St
  | .apply w v => { s with srv := some v, pending := s.pending ++ [(w, v)] }
  | .relay w => match s.pending.find? (·.1 == w) with
    | some (_, v) => { s with view := some v, pending := s.pending.filter (·.1 != w) }
    | none => s
  | .write _ v => { s with srv := some v, view := some v }

def run (s : St) (ms : List Move) : St := ms.foldl step s

def Move.atomic : Move → Bool
  | .write .. => true
  | _ => false

end Hagall.Writers
