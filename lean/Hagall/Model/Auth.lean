/-
  Access control model (C15): `http/auth.go` composed with hagall-common's token extraction
  (`GetUserTokenFromHTTPRequest`) and verification (`hdsclient.VerifyUserAuth`,
  `VerifyHagallUserAccessToken`, golang-jwt v4) and the check of `http/auth.go` that the token is a user access token
  (`verifyUserAccessToken`, finding F41).  HMAC-SHA-2 is an oracle: whether the signature of a
  token is the MAC of its signing input under the server's current secret is an input (`macOk`).
-/
namespace Hagall.Auth

/-- what matters of one token string -/
structure Tok where
  wellFormed : Bool       -- three dot-separated base64url segments whose header and claims are JSON objects
  alg : String            -- the header's `alg`
  macOk : Bool            -- signature = HMAC_alg(current secret, header "." claims)        [oracle]
  exp : Option Int        -- `exp` minus now, in seconds, when the claim is present
  iat : Option Int        -- `iat` minus now
  nbf : Option Int        -- `nbf` minus now
  issHDS : Bool := true   -- the `iss` claim is present and reads "HDS"
deriving Repr, DecidableEq, Inhabited

/-- the three carriers of a request; each holds a string or is absent -/
structure Carriers (α : Type) where
  header : Option (Bool × α)   -- Authorization header: (has the exact prefix "Bearer ", what follows / the value)
  query : Option α             -- access_token query parameter
  cookie : Option α            -- access_token cookie
deriving Repr

/-- `GetUserTokenFromHTTPRequest`: the first carrier that yields a non-empty token wins
    (`none` stands for the empty string) -/
def extract {α : Type} (c : Carriers α) : Option α :=
  match c.header with
  | some (true, t) => some t
  | _ => match c.query with
    | some t => some t
    | none => c.cookie

def hmacFamily : List String := ["HS256", "HS384", "HS512"]

/-- golang-jwt v4 `RegisteredClaims.Valid` plus the ten-second issued-at leeway of hagall-common -/
def claimsOk (t : Tok) : Bool :=
  let expBad := match t.exp with | some d => d ≤ 0 | none => false
  let iatBad := match t.iat with | some d => d > 0 | none => false
  let nbfBad := match t.nbf with | some d => d > 0 | none => false
  if !expBad && !iatBad && !nbfBad then true
  else if iatBad && !expBad && !nbfBad then (match t.iat with | some d => d < 10 | none => false)
  else false

/-- what the discovery service issues to users names it as the issuer and expires; the identity the server signs with
    the same secret for the discovery service (and hands to whoever asks for its health as HDS does) has neither -/
def userToken (t : Tok) : Bool := t.issHDS && t.exp.isSome

def verify (t : Tok) : Bool :=
  t.wellFormed && hmacFamily.contains t.alg && t.macOk && claimsOk t && userToken t

/-- is the request admitted? `secretSet`: the server currently holds a (non-empty) secret -/
def admitted (secretSet : Bool) (c : Carriers Tok) : Bool :=
  secretSet && (match extract c with | some t => verify t | none => false)

/-- both wrappers of `http/auth.go`: the protected handler runs iff the request is admitted -/
def guarded {σ : Type} (secretSet : Bool) (c : Carriers Tok) (inner : σ → σ) (st : σ) : σ × Bool :=
  if admitted secretSet c then (inner st, true) else (st, false)

end Hagall.Auth
