/-
  The synchronisation discipline of the shared structures, as functions over the facts the translator extracts from
  the current source (`Gen/Facts.lean`, `lockFacts`: for every method its lock operations in order, the fields it
  touches, the calls it makes).  Granularity: one method; flow-insensitive for the lockset, flow-sensitive (the
  order of Lock / Unlock / defer Unlock / closures) for the nesting.
-/
namespace Hagall.Locks

abbrev Fact := String × String × List String × List String × List String × Nat

/-- which mutex guards which fields of which type -/
structure Guard where
  ty : String
  mutex : String
  fields : List String

def guards : List Guard := [
  ⟨"Session", "participantMutex", ["participants", "ended"]⟩,
  ⟨"Session", "entityMutex", ["entities"]⟩,
  ⟨"Session", "moduleMutex", ["moduleStates"]⟩,
  ⟨"Session", "frameMutex", ["frameHandlers"]⟩,
  ⟨"SessionStore", "mutex", ["sessions"]⟩,
  ⟨"Entity", "mutex", ["pose"]⟩,
  ⟨"EntityComponentStore", "mutex", ["entityComponents", "nameIndex", "idIndex"]⟩,
  ⟨"EntityComponentStore", "subscriptionMutex", ["subscriptions"]⟩,
  ⟨"SequentialIDGenerator", "mutex", ["currentID", "reusableIDs"]⟩,
  ⟨"vikja.State", "entityActionMutex", ["entityActions"]⟩,
  ⟨"odal.State", "assetMutex", ["assetInstances"]⟩,
  ⟨"handlerWithLogs", "counterMutex", ["counter"]⟩,
  ⟨"handlerWithLogs", "identityMutex", ["sessionID", "sessionUUID", "participantID"]⟩
]

/-- methods that touch a guarded field without the lock, and why that is sound -/
def exempt : List (String × String) := [
  ("SessionStore", "init"),                        -- runs once, inside initOnce.Do, before the map is shared
  ("handlerWithLogs", "HandleParticipantJoin"),    -- the main-loop goroutine reads what only it writes (through setIdentity)
  ("handlerWithLogs", "HandleDisconnect")          -- the same goroutine
]

/-- the dagaz grid has no methods of its own that lock: the module's handlers hold the state's mutex around every
    call into the spatial partition -/
def gridCallers : List String := ["Init", "HandleDagazQuadSample", "HandleDagazGetGroundPlane", "HandleDagazGetRegion", "HandleDagazGetDebugInfo"]

abbrev Ops := String × String × List (String × Nat) × Bool

def takes (ops : List (String × Nat)) (mutex : String) : Bool := ops.any fun op => op.1 == mutex && op.2 == 1

/-- the methods that touch a guarded field without taking its mutex -/
def unguarded (facts : List Fact) (ops : List Ops) : List (String × String × String) :=
  facts.flatMap fun (f : Fact) =>
    let (ty, fn, _, fields, _, _) := f
    if exempt.contains (ty, fn) then [] else
    let mine := ((ops.find? fun o => o.1 == ty && o.2.1 == fn).map fun o => o.2.2.1).getD []
    (guards.filter fun g => g.ty == ty && g.fields.any fields.contains && !takes mine g.mutex).map fun g => (ty, fn, g.mutex)

/-- the dagaz handlers that reach the grid without the state's mutex -/
def gridUnguarded (ops : List Ops) : List String :=
  ops.filterMap fun (o : Ops) =>
    let (ty, fn, toks, grid) := o
    if ty == "dagaz.Module" && grid && !takes toks "state.mutex" then some fn else none

/-! ### writes need the write lock -/

abbrev Writes := String × String × List String

/-- the methods that write a guarded field (assign, increment, delete from - directly, through an index, a sub-field or
    a local bound to it) without taking the guarding mutex in write mode: `m.Lock`, not `m.RLock` -/
def writesWithoutWriteLock (facts : List Fact) (writes : List Writes) : List (String × String × String) :=
  writes.flatMap fun (w : Writes) =>
    let (ty, fn, fields) := w
    if exempt.contains (ty, fn) then [] else
    let ops := ((facts.find? fun (f : Fact) => f.1 == ty && f.2.1 == fn).map fun f => f.2.2.1).getD []
    (guards.filter fun g => g.ty == ty && g.fields.any fields.contains && !ops.contains (g.mutex ++ ".Lock")).map fun g => (ty, fn, g.mutex)

/-- how the dagaz handlers name the grid's methods -/
def gridCalls : List (String × String) := [
  ("m.state.SpatialPartition.InsertQuad", "InsertQuad"), ("m.state.SpatialPartition.IntersectQuad", "IntersectQuad"),
  ("m.state.SpatialPartition.GetRegion", "GetRegion"), ("m.state.SpatialPartition.GetDebugInfo", "GetDebugInfo")]

/-- what a grid method writes, itself or through the methods it calls on the grid (two levels deep) -/
def gridWrites (writes : List Writes) (self : List (String × String × List String)) (fn : String) : List String :=
  let own (g : String) : List String := ((writes.find? fun (w : Writes) => w.1 == "dagaz.RegularGrid" && w.2.1 == g).map fun w => w.2.2).getD []
  let callees (g : String) : List String := ((self.find? fun c => c.1 == "dagaz.RegularGrid" && c.2.1 == g).map fun c => c.2.2).getD []
  let l1 := callees fn
  let l2 := l1.flatMap callees
  ([fn] ++ l1 ++ l2).flatMap own

/-- the dagaz handlers that hold the state's mutex in read mode only and call a grid method that writes the grid: two
    such requests at once would both write it -/
def gridWritersUnderReadLock (facts : List Fact) (writes : List Writes) (self : List (String × String × List String)) : List (String × String) :=
  facts.flatMap fun (f : Fact) =>
    let (ty, fn, ops, _, calls, _) := f
    if ty != "dagaz.Module" || ops.contains "state.mutex.Lock" then [] else
    (gridCalls.filter fun gc => calls.contains gc.1 && !(gridWrites writes self gc.2).isEmpty).map fun gc => (fn, gc.2)

/-! ### nesting -/

/-- edges `held → acquired` inside one method; closures are separate scopes (they run later, on their own stack) -/
def nestGo (ty : String) : List (String × Nat) → List String → List (List String) → List (String × String) → List (String × String)
  | [], _, _, acc => acc
  | (m, code) :: rest, held, stack, acc =>
    if code == 4 then nestGo ty rest [] (held :: stack) acc
    else if code == 5 then (match stack with | h :: st => nestGo ty rest h st acc | [] => nestGo ty rest held [] acc)
    else if code == 1 then nestGo ty rest (held ++ [m]) stack (acc ++ held.map fun h => (ty ++ "." ++ h, ty ++ "." ++ m))
    else if code == 2 then nestGo ty rest (held.filter (· != m)) stack acc
    else nestGo ty rest held stack acc

def allEdges (ops : List Ops) : List (String × String) :=
  (ops.flatMap fun (o : Ops) => nestGo o.1 o.2.2.1 [] [] []).eraseDups

/-- reachability by `fuel` rounds of one-step extension -/
def reach (edges : List (String × String)) (fuel : Nat) (from_ : List String) : List String :=
  match fuel with
  | 0 => from_
  | n + 1 =>
    let next := (edges.filter fun e => from_.contains e.1).map (·.2)
    reach edges n (from_ ++ next).eraseDups

/-- the mutexes that can be acquired while already (transitively) held: a non-empty list is a lock-order cycle -/
def cycles (ops : List Ops) : List String :=
  let es := allEdges ops
  let nodes := (es.map (·.1) ++ es.map (·.2)).eraseDups
  nodes.filter fun n => (reach es es.length ((es.filter (·.1 == n)).map (·.2))).contains n

/-- re-entrant acquisitions: a method that takes a mutex and, on the same receiver, calls a method that takes the
    same mutex again.  With `sync.RWMutex` even two read locks are a deadlock as soon as a writer queues up between them. -/
def reentrant (ops : List Ops) (calls : List (String × String × List String)) : List (String × String × String × String) :=
  calls.flatMap fun (c : String × String × List String) =>
    let (ty, fn, callees) := c
    let mine := ((ops.find? fun o => o.1 == ty && o.2.1 == fn).map fun o => o.2.2.1).getD []
    let held := (mine.filter fun op => op.2 == 1).map (·.1)
    callees.flatMap fun g =>
      let theirs := ((ops.find? fun o => o.1 == ty && o.2.1 == g).map fun o => o.2.2.1).getD []
      (held.filter fun m => takes theirs m).map fun m => (ty, fn, g, m)

end Hagall.Locks
