/-
  Layer C for component update notifications against subscriptions: one component type of one session, any number of
  participants that update components of the type, subscribe, unsubscribe (and are then answered).

    notify by   EntityComponentStore.Notify: the subscribers are read and the relay (Session.BroadcastTo, which skips the
                sender) runs, all under the subscription read lock - one critical section
    subscribe   EntityComponentStore.Subscribe   (write lock)
    unsub       EntityComponentStore.Unsubscribe (write lock)
    answer      the unsubscribe response reaches the connection (after Unsubscribe returned)

  `snapshot` / `serve` are the two halves of a Notify that reads the subscribers under the lock and relays after
  releasing it (the seeded change C13-f; the shape of `BroadcastTo` before the repair F22).
-/
namespace Hagall.Notify

inductive Item where
  | notified (by_ : Nat)   -- an update made by participant `by_`
  | unsubscribed           -- the answer to its unsubscribe request
deriving Repr, DecidableEq

structure St where
  subs : List Nat := []
  inbox : Nat → List Item := fun _ => []
  pending : Option (Nat × List Nat) := none   -- split Notify only: (sender, subscribers read), not served yet
  stage : Nat → Nat := fun _ => 0             -- 0 has not asked to unsubscribe, 1 unsubscribed, 2 answered

inductive Move where
  | notify (by_ : Nat)
  | snapshot (by_ : Nat)
  | serve
  | subscribe (c : Nat)
  | unsub (c : Nat)
  | answer (c : Nat)
deriving Repr, DecidableEq

def relay (s : St) (by_ : Nat) (to : List Nat) : St :=
  { s with inbox := fun c => if to.contains c && c != by_ then s.inbox c ++ [.notified by_] else s.inbox c }

def step (s : St) : Move → St
  | .notify b => relay s b s.subs
  | .snapshot b => if s.pending.isNone then { s with pending := some (b, s.subs) } else s
  | .serve => match s.pending with
    | some (b, to) => { relay s b to with pending := none }
    | none => s
  | .subscribe c => if s.stage c = 0 then { s with subs := c :: s.subs.filter (· != c) } else s
  | .unsub c =>
    if s.stage c = 0 then { s with subs := s.subs.filter (· != c), stage := fun x => if x = c then 1 else s.stage x } else s
  | .answer c =>
    if s.stage c = 1 then
      { s with inbox := fun x => if x = c then s.inbox c ++ [.unsubscribed] else s.inbox x, stage := fun x => if x = c then 2 else s.stage x }
    else s

def run (s : St) (ms : List Move) : St := ms.foldl step s

/-- the moves of the code as it is: Notify is one critical section -/
def Move.current : Move → Bool
  | .snapshot _ | .serve => false
  | _ => true

end Hagall.Notify
