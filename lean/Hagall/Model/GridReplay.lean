/-
  Replays the operation lines of the grid harness on the float32 model and prints the same canonical
  result lines (GS / GH / GL / GP); the check compares the two streams textually.
-/
import Hagall.Model.Grid
namespace Hagall.Grid

def hexVal (c : Char) : Nat :=
  if c.isDigit then c.toNat - '0'.toNat else if 'a' ≤ c ∧ c ≤ 'f' then c.toNat - 'a'.toNat + 10 else 0
def parseHex (s : String) : Nat := s.foldl (fun acc c => acc * 16 + hexVal c) 0
def f32 (s : String) : Float32 := Float32.ofBits (UInt32.ofNat (parseHex s))

def hexDigits (n : Nat) : String := String.ofList (Nat.toDigits 16 n)
def bitsOf (f : Float32) : String :=
  -- Go prints one canonical NaN only when the bits are equal; keep the raw pattern
  hexDigits f.toBits.toNat
def v3s (v : V3) : String := s!"{bitsOf v.x},{bitsOf v.y},{bitsOf v.z}"

def idsStr (l : List Nat) : String := ",".intercalate (l.map toString)

def stateLine (g : Grid) : String := Id.run do
  let mut cells : List String := []
  let mut y := 0
  for row in g.cells do
    let mut x := 0
    for cell in row do
      if !cell.isEmpty then cells := s!"{x},{y}:{idsStr cell}" :: cells
      x := x + 1
    y := y + 1
  let mut quads : List String := []
  let mut i := 0
  for q in g.quads do
    -- the harness only knows the planes it can see in some cell
    if g.cells.any (·.any (·.contains i)) then
      quads := s!"{i}:{v3s q.center},{v3s q.extents},{v3s q.normal},{q.mergeCount}" :: quads
    i := i + 1
  s!"GS res={g.res} planes={g.planeCount} merges={g.mergeCount} min={v3s g.min} max={v3s g.max} rows={g.rows} cols={g.cols} cells={";".intercalate cells.reverse} quads={";".intercalate quads.reverse}"

def finiteF (f : Float32) : Bool := !(f.toFloat.isNaN || f.toFloat.isInf)

/-- the domain C20 quantifies over: finite horizontal planes with positive extents inside the 64 m bound -/
def inDomain (c e : V3) : Bool :=
  finiteF c.x && finiteF c.y && finiteF c.z && finiteF e.x && finiteF e.z &&
  e.x > 0 && e.z > 0 && e.y == 0 && c.y.toFloat.abs <= 64 &&
  c.x.toFloat.abs + e.x.toFloat <= 64 && c.z.toFloat.abs + e.z.toFloat <= 64

structure RState where
  g : Option Grid := none
  last : Option Grid := none     -- the last grid of the history (kept after a panic, for the GX line)
  inDom : Bool := true

def gxLine (r : RState) : String :=
  match r.last with
  | some g => s!"GX checks={g.spanChecks} drift={g.spanDrift} domain={if r.inDom then "in" else "out"}"
  | none => "GX checks=0 drift=0 domain=in"

end Hagall.Grid

namespace Hagall.Grid

/-- the replay loop proper: as `gridLoopOld`, plus the ghost-span report at the end of every history -/
partial def gridLoop (h : IO.FS.Stream) (r : RState) : IO Unit := do
  let line ← h.getLine
  if line.isEmpty then return ()
  let line := line.trimAscii.toString
  let f := (line.splitOn " ").filter (· ≠ "")
  match f with
  | "GRID" :: c :: rr :: s :: _ =>
    IO.println line
    let g := newGrid c.toNat! rr.toNat! s.toNat!
    gridLoop h { g := some g, last := some g, inDom := true }
  | ["GI", cx, cy, cz, ex, ey, ez, mc] =>
    match r.g with
    | none => gridLoop h r
    | some g =>
      IO.println line
      let c : V3 := ⟨f32 cx, f32 cy, f32 cz⟩
      let e : V3 := ⟨f32 ex, f32 ey, f32 ez⟩
      let r := { r with inDom := r.inDom && inDomain c e }
      match g.insert (mkQuad c e mc.toNat!) with
      | some g' => IO.println (stateLine g'); gridLoop h { r with g := some g', last := some g' }
      | none => IO.println "GP"; gridLoop h { r with g := none }
  | ["GR", fx, fy, fz, tx, ty, tz] =>
    match r.g with
    | none => gridLoop h r
    | some g =>
      IO.println line
      match g.intersect ⟨⟨f32 fx, f32 fy, f32 fz⟩, ⟨f32 tx, f32 ty, f32 tz⟩⟩ with
      | some (hit, t) =>
        IO.println s!"GH {match hit with | some i => toString i | none => "-"} {bitsOf t}"
        gridLoop h r
      | none => IO.println "GP"; gridLoop h { r with g := none }
  | ["GQ", a, b, c, d] =>
    match r.g with
    | none => gridLoop h r
    | some g =>
      IO.println line
      match g.region ⟨f32 a, 0, f32 b⟩ ⟨f32 c, 0, f32 d⟩ with
      | some ids =>
        let sorted := ids.toArray.qsort (· < ·) |>.toList
        IO.println s!"GL {idsStr sorted}"
        gridLoop h r
      | none => IO.println "GP"; gridLoop h { r with g := none }
  | ["GEND"] => IO.println (gxLine r); IO.println line; gridLoop h {}
  | _ => gridLoop h r

end Hagall.Grid
