/-
  The vector primitives of `modules/dagaz/math.go`, written once over any scalar type: instantiated with
  `Float32` they are the executable model compared bit for bit with the Go code, instantiated with `Int`
  they are the exact-arithmetic reference the theorems of C20 are about.
-/
namespace Hagall.Grid

structure Vec3 (α : Type) where
  x : α
  y : α
  z : α
deriving Inhabited, Repr, DecidableEq

variable {α : Type} [Add α] [Sub α] [Mul α]

def Vec3.add (a b : Vec3 α) : Vec3 α := ⟨a.x + b.x, a.y + b.y, a.z + b.z⟩
def Vec3.sub (a b : Vec3 α) : Vec3 α := ⟨a.x - b.x, a.y - b.y, a.z - b.z⟩
def Vec3.mul (a : Vec3 α) (s : α) : Vec3 α := ⟨a.x * s, a.y * s, a.z * s⟩
def Vec3.dot (a b : Vec3 α) : α := a.x * b.x + a.y * b.y + a.z * b.z
def Vec3.cross (a b : Vec3 α) : Vec3 α := ⟨a.y * b.z - a.z * b.y, a.z * b.x - a.x * b.z, a.x * b.y - a.y * b.x⟩

/-- `calculateNormal` before normalisation -/
def rawNormal [OfNat α 0] (c e : Vec3 α) : Vec3 α :=
  let pointA := c.add ⟨e.x, e.y, 0⟩
  let pointB := c.add ⟨0, e.y, e.z⟩
  let vectorA := pointA.sub c
  let vectorB := pointB.sub c
  vectorB.cross vectorA

/-- `doHorizontalPlanesOverlap` on centres and half extents -/
def overlapXZ [LE α] [DecidableLE α] (ca ea cb eb : Vec3 α) : Bool :=
  let minA := ca.sub ea
  let maxA := ca.add ea
  let minB := cb.sub eb
  let maxB := cb.add eb
  !(decide (maxB.x ≤ minA.x)) && !(decide (maxA.x ≤ minB.x)) && !(decide (maxB.z ≤ minA.z)) && !(decide (maxA.z ≤ minB.z))

end Hagall.Grid
