/-
  The cell bookkeeping of the dagaz regular grid, free of floating point: cells hold the ids (pointer
  identities) of the planes registered in them.  `none` is a Go index-out-of-range panic.
  The float32 geometry that produces the spans is in `Grid.lean`.
-/
namespace Hagall.Grid

/-- `cells[y][x]`: rows of columns of id lists -/
abbrev Cells := List (List (List Nat))

def Cells.get (c : Cells) (x y : Nat) : Option (List Nat) := (c[y]?).bind (·[x]?)

def Cells.put (c : Cells) (x y : Nat) (l : List Nat) : Option Cells :=
  match c[y]? with
  | some row => if x < row.length then some (c.set y (row.set x l)) else none
  | none => none

/-- apply `f` to the cells of the coordinate list, in order -/
def Cells.forCells (c : Cells) (cs : List (Nat × Nat)) (f : List Nat → List Nat) : Option Cells :=
  cs.foldlM (fun (c : Cells) (xy : Nat × Nat) => (c.get xy.1 xy.2).bind fun l => c.put xy.1 xy.2 (f l)) c

/-- `removeQuadFromCell`: the first occurrence is overwritten with the last element, the last element dropped -/
def removeSwap : List Nat → Nat → List Nat
  | [], _ => []
  | x :: xs, id =>
    if x == id then (match xs.getLast? with | none => [] | some z => z :: xs.dropLast)
    else x :: removeSwap xs id

def rangeIncl (a b : Nat) : List Nat := if a ≤ b then (List.range (b - a + 1)).map (· + a) else []
def rangeExcl (a b : Nat) : List Nat := if a < b then (List.range (b - a)).map (· + a) else []
/-- `for x := hi; x > lo; x--` -/
def rangeDown (hi lo : Nat) : List Nat := if lo < hi then ((List.range (hi - lo)).map (· + lo + 1)).reverse else []

/-- `ys × xs` in the order of a `for y { for x }` nest -/
def grid2 (ys xs : List Nat) : List (Nat × Nat) := ys.flatMap fun y => xs.map fun x => (x, y)

/-- inclusive cell span of a footprint -/
structure Span where
  minX : Nat
  minY : Nat
  maxX : Nat
  maxY : Nat
deriving Repr, DecidableEq, Inhabited

def Span.has (s : Span) (x y : Nat) : Prop := s.minX ≤ x ∧ x ≤ s.maxX ∧ s.minY ≤ y ∧ y ≤ s.maxY

/-- the append loops of `InsertQuad` -/
def register (c : Cells) (id : Nat) (s : Span) : Option Cells :=
  c.forCells (grid2 (rangeIncl s.minY s.maxY) (rangeIncl s.minX s.maxX)) (· ++ [id])

/-- one edge loop of `mergeQuads`: the plane is appended to, or removed from, every cell of the strip -/
def edgeOp (eid : Nat) (expand : Bool) : List Nat → List Nat := fun l => if expand then l ++ [eid] else removeSwap l eid

/-- the four edge loops of `mergeQuads`: `s0` is the span before the plane moved, `s1` after.
    (Go: `minMinX := minX0; maxMinX := minX1; if minX1 < minX0 { swap; expandLeft = true }`, and so on:
    the smaller, the larger, and which way round they were.) -/
def reRegister (c : Cells) (eid : Nat) (s0 s1 : Span) : Option Cells :=
  let minMinX := Nat.min s0.minX s1.minX
  let maxMinX := Nat.max s0.minX s1.minX
  let expandLeft := decide (s1.minX < s0.minX)
  let minMaxX := Nat.min s0.maxX s1.maxX
  let maxMaxX := Nat.max s0.maxX s1.maxX
  let expandRight := !decide (s1.maxX < s0.maxX)
  let minMinY := Nat.min s0.minY s1.minY
  let maxMinY := Nat.max s0.minY s1.minY
  let expandTop := decide (s1.minY < s0.minY)
  let minMaxY := Nat.min s0.maxY s1.maxY
  let maxMaxY := Nat.max s0.maxY s1.maxY
  let expandBottom := !decide (s1.maxY < s0.maxY)
  (c.forCells (grid2 (rangeIncl minMinY maxMaxY) (rangeExcl minMinX maxMinX)) (edgeOp eid expandLeft)).bind fun c =>
  (c.forCells (grid2 (rangeIncl minMinY maxMaxY) (rangeDown maxMaxX minMaxX)) (edgeOp eid expandRight)).bind fun c =>
  (c.forCells (grid2 (rangeExcl minMinY maxMinY) (rangeIncl maxMinX minMaxX)) (edgeOp eid expandTop)).bind fun c =>
  c.forCells (grid2 (rangeDown maxMaxY minMaxY) (rangeIncl maxMinX minMaxX)) (edgeOp eid expandBottom)

/-- `ExpandToFitPoint`, the slices: `xCount` new columns on the left or right of every row, then `yCount`
    new rows (of the new width) above or below -/
def grow (c : Cells) (xCount yCount : Nat) (left top : Bool) : Cells :=
  let width := xCount + (c.head?.map List.length).getD 0
  let c := c.map fun row => if left then List.replicate xCount [] ++ row else row ++ List.replicate xCount []
  let fresh : List (List (List Nat)) := List.replicate yCount (List.replicate width [])
  if top then fresh ++ c else c ++ fresh

/-- `GetRegion`: the distinct ids of the cells `[minX, maxX) × [minY, maxY)` -/
def regionIds (c : Cells) (minX minY maxX maxY : Nat) : Option (List Nat) :=
  ((grid2 (rangeExcl minY maxY) (rangeExcl minX maxX)).mapM fun xy => c.get xy.1 xy.2).map fun ls => ls.flatten.eraseDups

end Hagall.Grid
