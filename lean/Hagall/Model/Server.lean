/-
  Hagall model, layer S: the server — session registry, session-id generator, connections with their
  scheduler (hagall-common `scheduler`: coalescing maps + FIFO queue), receipt queue — and the total
  step function over events.
-/
import Hagall.Model.Session
namespace Hagall

/-- `models.SequentialIDGenerator` -/
structure IdGen where
  cur : Nat := 0
  pool : List Nat := []
deriving DecidableEq, Repr, Inhabited

/-- `New`: some pooled id (Go picks by map iteration: `hint` is the implementation's choice, used when
    it is in the pool; otherwise the first pooled id), else the next counter value. -/
def IdGen.new (g : IdGen) (hint : Nat) : Nat × IdGen :=
  match g.pool with
  | [] => (g.cur + 1, { g with cur := g.cur + 1 })
  | x :: _ =>
    let id := if g.pool.contains hint then hint else x
    (id, { g with pool := g.pool.filter (· != id) })

/-- `Reuse`: the pool is a set. -/
def IdGen.reuse (g : IdGen) (id : Nat) : IdGen :=
  if g.pool.contains id then g else { g with pool := g.pool ++ [id] }

/-- a message waiting in a connection's scheduler queue; `grp ≠ 0` = flushed by frame tick number `grp`
    (messages flushed by one tick were taken from a Go map: their relative order is arbitrary) -/
structure QItem where
  req : Req
  grp : Nat := 0
deriving DecidableEq, Repr, Inhabited

structure Conn where
  id : Nat
  pendPose : List (Nat × Req) := []          -- entity id ↦ latest pose update
  pendComp : List ((Nat × Nat) × Req) := []  -- (type id, entity id) ↦ latest component update
  queue : List QItem := []
deriving DecidableEq, Repr, Inhabited

structure Receipt where
  receipt : Bytes
  hash : Bytes
  sig : Bytes
deriving DecidableEq, Repr, Inhabited

structure Server where
  sessions : List Session := []
  ids : IdGen := {}
  uuidCur : Nat := 0
  conns : List Conn := []
  receipts : List Receipt := []
  forwarded : List Receipt := []   -- what the drain event took out of the queue, oldest first
  gauge : Int := 0                 -- session_count gauge (Inc on Add, Dec on Remove)
  ticks : Nat := 0
deriving DecidableEq, Repr, Inhabited

inductive Event
  | connect (c : Nat)
  | recv (c : Nat) (r : Req)                 -- receiver goroutine: `scheduler.Dispatch`
  | handle (c : Nat) (pick hint : Nat)       -- main loop: consume one queued message, `handleMessage`
  | tick (sid : Nat)                         -- frame worker of session `sid`: every member's `HandleFrame`
  | disconnect (c : Nat)                     -- `handleDisconnect`
  | drain                                    -- the receipt consumer takes everything queued
deriving DecidableEq, Repr, Inhabited

abbrev SRes := Server × List Delivery × Outcome

/-! ### lookups and updates -/

def Server.findSession (srv : Server) (sid : Nat) : Option Session := srv.sessions.find? (·.id == sid)

/-- the session and participant record a connection is currently joined as -/
def Server.locate (srv : Server) (c : Nat) : Option (Session × Part) :=
  srv.sessions.findSome? fun s => (s.parts.find? (·.conn == c)).map fun p => (s, p)

def Server.setSession (srv : Server) (s : Session) : Server :=
  { srv with sessions := srv.sessions.map fun x => if x.id == s.id then s else x }

def Server.findConn (srv : Server) (c : Nat) : Option Conn := srv.conns.find? (·.id == c)
def Server.setConn (srv : Server) (k : Conn) : Server :=
  { srv with conns := srv.conns.map fun x => if x.id == k.id then k else x }

/-! ### leaving and joining -/

/-- `leaveSession` for a joined connection: the session part, then the registry part. -/
def Server.leave (cfg : Cfg) (srv : Server) (s : Session) (p : Part) : Server × List Delivery :=
  let (s', ds) := s.leave cfg p.pid
  if s'.parts.isEmpty then
    ({ srv with sessions := srv.sessions.filter (·.id != s.id), ids := srv.ids.reuse s.id,
                gauge := srv.gauge - 1 }, ds)
  else (srv.setSession s', ds)

/-- add connection `c` to session `s` as a new participant (`NewParticipantID`, `AddParticipant`) -/
def Session.addPart (s : Session) (c : Nat) : Session × Part :=
  let p : Part := { pid := s.pidCur + 1, conn := c }
  ({ s with pidCur := s.pidCur + 1, parts := s.parts ++ [p] }, p)

/-- what a successful join delivers: the response, the session snapshot, the join broadcast, and the
    module states handed out by the module pass of `handleMessage` (`s` already contains the newcomer) -/
def joinDeliveries (cfg : Cfg) (s : Session) (p : Part) (rid ots : Nat) : List Delivery :=
  ((p.conn, Out.joinResp rid s.id s.uuid p.pid)
      :: gate cfg fSessionState [(p.conn, .sessionState s.pids (s.ents.map Entity.view) s.comps)])
    ++ gate cfg fJoin (s.bcast p.pid (.joinBcast ots p.pid))
    ++ (if cfg.vikja then [(p.conn, Out.vikjaState s.actions)] else [])
    ++ (if cfg.odal then [(p.conn, Out.odalState s.assets)] else [])

/-- the part of `HandleParticipantJoin` after any previous session has been left,
    followed by the module pass of `handleMessage` -/
def Server.joinFresh (cfg : Cfg) (srv : Server) (c rid ots : Nat) (target : JoinTarget) (hint : Nat)
    : SRes :=
  match target with
  | .bogus => (srv, [(c, .error rid ecNotFound)], .ok)
  | .id n =>
    match srv.findSession n with
    | none => (srv, [(c, .error rid ecNotFound)], .ok)
    | some s =>
      let (s', p) := s.addPart c
      (srv.setSession s', joinDeliveries cfg s' p rid ots, .ok)
  | .new =>
    let (id, g) := srv.ids.new hint
    let (s', p) := ({ id, uuid := srv.uuidCur + 1 } : Session).addPart c
    ({ srv with ids := g, uuidCur := srv.uuidCur + 1, sessions := srv.sessions ++ [s'], gauge := srv.gauge + 1 },
     joinDeliveries cfg s' p rid ots, .ok)

/-- does the join target name an existing session, or ask for a new one? -/
def Server.resolves (srv : Server) : JoinTarget → Bool
  | .new => true
  | .id n => (srv.findSession n).isSome
  | .bogus => false

def Server.join (cfg : Cfg) (srv : Server) (c rid ots : Nat) (target : JoinTarget) (hint : Nat) : SRes :=
  match srv.locate c with
  | some (s, p) =>
    if target == .id s.id then
      -- refused, but still joined: the module pass of `handleMessage` runs on the join message
      (srv, (c, Out.error rid ecAlreadyJoined)
            :: (if cfg.vikja then [(c, Out.vikjaState s.actions)] else [])
            ++ (if cfg.odal then [(c, Out.odalState s.assets)] else []), .ok)
    else if !srv.resolves target then
      -- the lookup precedes the departure: a refused join changes nothing (the module pass still runs)
      (srv, (c, Out.error rid ecNotFound)
            :: (if cfg.vikja then [(c, Out.vikjaState s.actions)] else [])
            ++ (if cfg.odal then [(c, Out.odalState s.assets)] else []), .ok)
    else
      -- a measurement that is still running ends with the session it was started in: its request is answered too
      let (srv', ds) := srv.leave cfg s p
      let (srv'', ds', o) := srv'.joinFresh cfg c rid ots target hint
      (srv'', s.abandoned p ++ ds ++ ds', o)
  | none => srv.joinFresh cfg c rid ots target hint

/-! ### handling one message (`handler.handleMessage`) -/

/-- what a request that needs a session does when the connection is in none -/
def notJoined (c : Nat) (r : Req) : List Delivery × Outcome :=
  match r with
  | .pingResp rid => ([(c, .error rid ecUnauthorized)], .ok)
  | .signedLatency rid _ _ => ([(c, .error rid ecUnauthorized)], .ok)
  | .entityAdd .. | .entityDelete .. | .updatePose .. | .custom .. => ([], .connError)
  | .typeAdd rid name => if name == "" then ([(c, .error rid ecBadRequest)], .ok) else ([], .connError)
  | .typeGetName rid tid => if tid == 0 then ([(c, .error rid ecBadRequest)], .ok) else ([], .connError)
  | .typeGetId rid name => if name == "" then ([(c, .error rid ecBadRequest)], .ok) else ([], .connError)
  | .compAdd rid _ tid eid _ =>
    if tid == 0 || eid == 0 then ([(c, .error rid ecBadRequest)], .ok) else ([], .connError)
  | .compDelete rid _ tid eid =>
    if tid == 0 || eid == 0 then ([(c, .error rid ecBadRequest)], .ok) else ([], .connError)
  | .compUpdate _ tid eid _ => if tid == 0 || eid == 0 then ([], .ok) else ([], .connError)
  | .compList rid tid => if tid == 0 then ([(c, .error rid ecBadRequest)], .ok) else ([], .connError)
  | .subscribe rid tid => if tid == 0 then ([(c, .error rid ecBadRequest)], .ok) else ([], .connError)
  | .unsubscribe rid tid => if tid == 0 then ([(c, .error rid ecBadRequest)], .ok) else ([], .connError)
  | .undecodable ty => ([], if ty < 100 then .connError else .ok)
  | _ => ([], .ok)            -- module messages and unknown types are dropped

def Server.handleReceipt (cfg : Cfg) (srv : Server) (c rid : Nat) (receipt hash sig : Bytes) : SRes :=
  if receipt.length == 0 || hash.length == 0 || sig.length == 0 then
    (srv, [(c, .error rid ecBadRequest)], .ok)
  else if srv.receipts.length < cfg.rcap then
    ({ srv with receipts := srv.receipts ++ [⟨receipt, hash, sig⟩] }, [(c, .receiptResp rid)], .ok)
  else (srv, [(c, .error rid ecTooBusy)], .ok)

/-- `handleMessage` -/
def Server.handleReq (cfg : Cfg) (srv : Server) (c : Nat) (r : Req) (hint : Nat) : SRes :=
  match r with
  | .ping rid => (srv, [(c, .pingResp rid)], .ok)
  | .join rid ots target => srv.join cfg c rid ots target hint
  | .receipt rid rc h sg => srv.handleReceipt cfg c rid rc h sg
  | r =>
    match srv.locate c with
    | none => let (ds, o) := notJoined c r; (srv, ds, o)
    | some (s, p) =>
      let (s', ds, o) := s.handle cfg p r hint
      (srv.setSession s', ds, o)

/-! ### the scheduler -/

def insertKV {κ : Type} [BEq κ] (l : List (κ × Req)) (k : κ) (v : Req) : List (κ × Req) :=
  if l.any (·.1 == k) then l.map fun q => if q.1 == k then (k, v) else q else l ++ [(k, v)]

/-- `handler.dispatch` after the join request's flush: an update without a pose is dropped before it reaches the
    scheduler (it would take the place of the update with a pose that waits for the frame), the rest is
    `scheduler.Dispatch` -/
def Conn.dispatch (k : Conn) (r : Req) : Conn × Outcome :=
  match r with
  | .updatePose _ _ none => (k, .ok)
  | .updatePose _ eid _ => ({ k with pendPose := insertKV k.pendPose eid r }, .ok)
  | .compUpdate _ tid eid _ => ({ k with pendComp := insertKV k.pendComp (tid, eid) r }, .ok)
  | .undecodable ty =>
    if ty == 14 || ty == 30 then (k, .connError) else ({ k with queue := k.queue ++ [⟨r, 0⟩] }, .ok)
  | r => ({ k with queue := k.queue ++ [⟨r, 0⟩] }, .ok)

/-- `scheduler.HandleFrame` during tick number `n` -/
def Conn.flush (k : Conn) (n : Nat) : Conn :=
  { k with queue := k.queue ++ (k.pendPose.map fun q => ⟨q.2, n⟩) ++ (k.pendComp.map fun q => ⟨q.2, n⟩),
           pendPose := [], pendComp := [] }

/-- a pose update that carries a pose (one that carries none never reaches the scheduler) -/
def Req.isPose : Req → Bool | .updatePose _ _ (some _) => true | _ => false

/-- the messages that may be at the head of the Go channel: the head item, or, when the head was flushed
    by a tick, any item of the same tick and the same map (pose / component) -/
def headGroup (q : List QItem) : List QItem :=
  match q with
  | [] => []
  | x :: xs => if x.grp == 0 then [x] else
      x :: xs.takeWhile fun y => y.grp == x.grp && y.req.isPose == x.req.isPose

/-- take the `pick`-th message of the head group (0 when out of range) -/
def Conn.pop (k : Conn) (pick : Nat) : Option (Req × Conn) :=
  let g := headGroup k.queue
  match g[pick]? <|> g.head? with
  | none => none
  | some it => some (it.req, { k with queue := k.queue.erase it })

/-- `handler.dispatch`, the part before the scheduler: a join request first releases the updates that wait for the
    frame - they were sent before it and are for the session the connection is in now (or for none), not for the one it
    is about to join, where the same ids name other things -/
def Server.beforeDispatch (srv : Server) (k : Conn) (r : Req) : Server × Conn :=
  match r with
  | .join .. => ({ srv with ticks := srv.ticks + 1 }, k.flush (srv.ticks + 1))
  | _ => (srv, k)

@[simp] theorem Server.beforeDispatch_sessions (srv : Server) (k : Conn) (r : Req) : (srv.beforeDispatch k r).1.sessions = srv.sessions := by
  unfold Server.beforeDispatch; split <;> rfl
@[simp] theorem Server.beforeDispatch_conns (srv : Server) (k : Conn) (r : Req) : (srv.beforeDispatch k r).1.conns = srv.conns := by
  unfold Server.beforeDispatch; split <;> rfl
@[simp] theorem Server.beforeDispatch_receipts (srv : Server) (k : Conn) (r : Req) : (srv.beforeDispatch k r).1.receipts = srv.receipts := by
  unfold Server.beforeDispatch; split <;> rfl
@[simp] theorem Server.beforeDispatch_forwarded (srv : Server) (k : Conn) (r : Req) : (srv.beforeDispatch k r).1.forwarded = srv.forwarded := by
  unfold Server.beforeDispatch; split <;> rfl
@[simp] theorem Server.beforeDispatch_ids (srv : Server) (k : Conn) (r : Req) : (srv.beforeDispatch k r).1.ids = srv.ids := by
  unfold Server.beforeDispatch; split <;> rfl
@[simp] theorem Server.beforeDispatch_gauge (srv : Server) (k : Conn) (r : Req) : (srv.beforeDispatch k r).1.gauge = srv.gauge := by
  unfold Server.beforeDispatch; split <;> rfl
@[simp] theorem Server.beforeDispatch_uuidCur (srv : Server) (k : Conn) (r : Req) : (srv.beforeDispatch k r).1.uuidCur = srv.uuidCur := by
  unfold Server.beforeDispatch; split <;> rfl

/-! ### the step function -/

def Server.disconnect (cfg : Cfg) (srv : Server) (c : Nat) : Server × List Delivery :=
  let (srv, ds) := match srv.locate c with
    | some (s, p) => srv.leave cfg s p
    | none => (srv, [])
  ({ srv with conns := srv.conns.filter (·.id != c) }, ds)

def step (cfg : Cfg) (srv : Server) (e : Event) : SRes :=
  match e with
  | .connect c =>
    if (srv.findConn c).isSome then (srv, [], .ok)
    else ({ srv with conns := srv.conns ++ [{ id := c }] }, [], .ok)
  | .recv c r =>
    match srv.findConn c with
    | none => (srv, [], .ok)
    | some k =>
      match (srv.beforeDispatch k r).2.dispatch r with
      | (k', .ok) => ((srv.beforeDispatch k r).1.setConn k', [], .ok)
      | (_, o) => let (srv', ds) := (srv.beforeDispatch k r).1.disconnect cfg c; (srv', ds, o)
  | .handle c pick hint =>
    match srv.findConn c with
    | none => (srv, [], .ok)
    | some k =>
      match k.pop pick with
      | none => (srv, [], .ok)
      | some (r, k') =>
        let (srv', ds, o) := (srv.setConn k').handleReq cfg c r hint
        match o with
        | .ok => (srv', ds, .ok)
        | .connError => let (srv'', ds') := srv'.disconnect cfg c; (srv'', ds ++ ds', .connError)
        | .panic site =>
          -- the panic unwinds `handler.Handle`: no HandleDisconnect, the participant stays (a ghost)
          ({ srv' with conns := srv'.conns.filter (·.id != c) }, ds, .panic site)
  | .tick sid =>
    match srv.findSession sid with
    | none => (srv, [], .ok)
    | some s =>
      let n := srv.ticks + 1
      let members := s.parts.map (·.conn)
      ({ srv with ticks := n,
                  conns := srv.conns.map fun k => if members.contains k.id then k.flush n else k }, [], .ok)
  | .disconnect c =>
    let (srv', ds) := srv.disconnect cfg c
    (srv', ds, .ok)
  | .drain => ({ srv with forwarded := srv.forwarded ++ srv.receipts, receipts := [] }, [], .ok)

/-- a history is a list of events; the trace is everything delivered, in order -/
def run (cfg : Cfg) (srv : Server) : List Event → Server × List Delivery
  | [] => (srv, [])
  | e :: es =>
    let (srv', ds, _) := step cfg srv e
    let (srv'', ds') := run cfg srv' es
    (srv'', ds ++ ds')

end Hagall
