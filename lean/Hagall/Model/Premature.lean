/-
  Layer C for a delete request that names an entity id not yet issued (finding F46): entity ids are sequential, so any
  participant can ask for the deletion of the id the next entity will get.  The request is refused, and the modules run
  their clean-up on it: look the entity up, and when it is not in the session remove what the module holds for that id.

    owner      O1  Session.AddEntity: the entity exists from now on (ids are never reissued, it never goes away here)
               O2  the module stores the attachment (odal SetAssetInstance / vikja SetEntityActionIfLatest)
    stranger   the clean-up of its refused request, once or many times:
               atomic (the code):  look-up and removal in one critical section of the module state's lock
                                   (RemoveAssetInstanceUnless / RemoveEntityActionsUnless)
               split (before the repair):  S1 look the entity up; S2 remove if it was not there at S1
-/
namespace Hagall.Premature

structure St where
  there : Bool := false        -- the entity is in the session
  attached : Bool := false     -- the module holds the attachment
  owner : Nat := 0             -- 0 before O1, 1 between O1 and O2, 2 done
  armed : Nat → Bool := fun _ => false   -- split only: stranger c looked and did not find the entity

inductive Move where
  | owner
  | stranger (c : Nat)
deriving Repr, DecidableEq, Inhabited

def step (split : Bool) (s : St) : Move → St
  | .owner =>
    match s.owner with
    | 0 => { s with there := true, owner := 1 }
    | 1 => { s with attached := true, owner := 2 }
    | _ => s
  | .stranger c =>
    if split then
      if s.armed c then { s with attached := false, armed := fun x => if x = c then false else s.armed x }
      else if s.there then s else { s with armed := fun x => if x = c then true else s.armed x }
    else
      if s.there then s else { s with attached := false }

def run (split : Bool) (s : St) (ms : List Move) : St := ms.foldl (step split) s

end Hagall.Premature
