/-
  The registry critical sections as they were before the repair of F20 (/repo 76a5dfe), kept to exhibit, in the kernel, the
  interleavings the repair removes (`Props/C07Conc.lean`).  Differences from `Model/Registry.lean`:
    * a join by id looks the session up, leaves the current session, then adds itself - and AddParticipant never refuses;
    * RemoveParticipant reports nothing: the handler reads ParticipantCount() in a critical section of its own afterwards;
    * a new session is registered first and receives its creator afterwards.
-/
import Hagall.Model.Registry
namespace Hagall.RegistryOld
open Hagall.Registry (Obj Req lookup pick)

inductive Then where
  | stop
  | addTo (o : Nat)
  | create
deriving Repr, DecidableEq, Inhabited

inductive PC where
  | idle (cur : Option Nat)
  | add (o : Nat)
  | rem (o : Nat) (k : Then)
  | count (o : Nat) (k : Then)
  | unreg (o : Nat) (k : Then)
  | newid
  | register (i : Nat)
deriving Repr, DecidableEq, Inhabited

structure St where
  n : Nat := 0
  obj : Nat → Obj := fun _ => {id := 0}
  reg : List (Nat × Nat) := []
  pool : List Nat := []
  cur : Nat := 0
  gauge : Int := 0
  pc : Nat → PC := fun _ => .idle none

def Then.next : Then → PC
  | .stop => .idle none
  | .addTo o => .add o
  | .create => .newid

def St.setPc (s : St) (c : Nat) (p : PC) : St := { s with pc := fun x => if x = c then p else s.pc x }
def St.setObj (s : St) (o : Nat) (v : Obj) : St := { s with obj := fun x => if x = o then v else s.obj x }

def step (s : St) (c : Nat) (r : Req) (hint : Nat) : St :=
  match s.pc c with
  | .idle cur =>
    match r with
    | .joinId i =>
      if (match cur with | some o' => (s.obj o').id == i | none => false) then s else
      match lookup s.reg i with
      | none => s
      | some o => match cur with
        | none => s.setPc c (.add o)
        | some o' => s.setPc c (.rem o' (.addTo o))
    | .joinNew =>
      match cur with
      | none => s.setPc c .newid
      | some o' => s.setPc c (.rem o' .create)
    | .disconnect =>
      match cur with
      | none => s
      | some o' => s.setPc c (.rem o' .stop)
  | .add o => (s.setObj o { s.obj o with members := c :: (s.obj o).members }).setPc c (.idle (some o))
  | .rem o k => (s.setObj o { s.obj o with members := (s.obj o).members.filter (· != c) }).setPc c (.count o k)
  | .count o k => if (s.obj o).members.isEmpty then s.setPc c (.unreg o k) else s.setPc c k.next
  | .unreg o k =>
    let i := (s.obj o).id
    ({ s with reg := s.reg.filter (fun (p : Nat × Nat) => p.1 != i), pool := i :: s.pool.filter (· != i),
              gauge := s.gauge - 1 } : St).setPc c k.next
  | .newid =>
    let i := pick s.pool s.cur hint
    ({ s with pool := s.pool.filter (· != i), cur := if i ∈ s.pool then s.cur else s.cur + 1 } : St).setPc c (.register i)
  | .register i =>
    (({ s with n := s.n + 1, reg := (i, s.n) :: s.reg.filter (fun (p : Nat × Nat) => p.1 != i), gauge := s.gauge + 1 } : St).setObj s.n
      { id := i, members := [], ended := false }).setPc c (.add s.n)

def run (s : St) (ms : List Registry.Move) : St := ms.foldl (fun s (m : Registry.Move) => step s m.1 m.2.1 m.2.2) s

end Hagall.RegistryOld
