/-
  Layer C for one key (type, entity) of the component store: any number of participants adding a component under that key
  and deleting it, interleaved at the granularity of the store's critical sections.

    atomic (the code):   EntityComponentStore.Add     looks the key up and inserts under one write lock
                         EntityComponentStore.Delete  looks the key up and removes under one write lock
    split  (a variant):  the adder looks the key up in one critical section (read lock) and inserts in a second one

  `accepted` counts the adds answered with success, `removed` the deletes answered with success: a map holds a key at
  most once, so every accepted add but the one still stored has been removed.
-/
namespace Hagall.AddOnce

structure St where
  present : Bool := false
  accepted : Nat := 0
  removed : Nat := 0
  looked : Nat → Bool := fun _ => false    -- split variant: the adder found the key free and goes on to insert

inductive Move where
  | add (c : Nat)
  | delete (c : Nat)
deriving Repr, DecidableEq, Inhabited

def St.setLooked (s : St) (c : Nat) (b : Bool) : St := { s with looked := fun x => if x = c then b else s.looked x }

def step (split : Bool) (s : St) : Move → St
  | .add c =>
    if split then
      if s.looked c then ({ s with present := true, accepted := s.accepted + 1 } : St).setLooked c false
      else if s.present then s else s.setLooked c true
    else
      if s.present then s else { s with present := true, accepted := s.accepted + 1 }
  | .delete _ => if s.present then { s with present := false, removed := s.removed + 1 } else s

def run (split : Bool) (s : St) (ms : List Move) : St := ms.foldl (step split) s

end Hagall.AddOnce
