/-
  Feature flags: filtering deliveries by flag class, and the lemmas that push the filter through
  broadcasts and gates.
-/
import Hagall.Proofs.Handle
namespace Hagall

def Cfg.withFlags (cfg : Cfg) (F : List String) : Cfg := { cfg with flags := F }

@[simp] theorem Cfg.withFlags_flags (cfg : Cfg) (F : List String) : (cfg.withFlags F).flags = F := rfl
@[simp] theorem Cfg.withFlags_vikja (cfg : Cfg) (F : List String) : (cfg.withFlags F).vikja = cfg.vikja := rfl
@[simp] theorem Cfg.withFlags_odal (cfg : Cfg) (F : List String) : (cfg.withFlags F).odal = cfg.odal := rfl
@[simp] theorem Cfg.withFlags_dagaz (cfg : Cfg) (F : List String) : (cfg.withFlags F).dagaz = cfg.dagaz := rfl
@[simp] theorem Cfg.withFlags_rcap (cfg : Cfg) (F : List String) : (cfg.withFlags F).rcap = cfg.rcap := rfl

/-- is a message kept under the flag set `F`? -/
def keepMsg (F : List String) (m : Out) : Bool :=
  match m.flagClass with
  | some f => !F.contains f
  | none => true

/-- what is left of a delivery list when the flags in `F` are set -/
def filterF (F : List String) (ds : List Delivery) : List Delivery := ds.filter fun d => keepMsg F d.2

@[simp] theorem filterF_nil (F : List String) : filterF F [] = [] := rfl
@[simp] theorem filterF_append (F : List String) (a b : List Delivery) : filterF F (a ++ b) = filterF F a ++ filterF F b := by
  simp [filterF]
theorem filterF_cons (F : List String) (d : Delivery) (ds : List Delivery) :
    filterF F (d :: ds) = if keepMsg F d.2 then d :: filterF F ds else filterF F ds := by
  simp [filterF, List.filter_cons]
@[simp] theorem filterF_abandoned (F : List String) (s : Session) (p : Part) : filterF F (s.abandoned p) = s.abandoned p := by
  unfold Session.abandoned
  split
  · simp [filterF, keepMsg, Out.flagClass]
  · rfl

@[simp] theorem filterF_empty (ds : List Delivery) : filterF [] ds = ds := by
  unfold filterF
  rw [List.filter_eq_self]
  intro d _
  unfold keepMsg
  split <;> simp

theorem filterF_all_same (F : List String) (ds : List Delivery) (m : Out) (h : ∀ d ∈ ds, d.2 = m) :
    filterF F ds = if keepMsg F m then ds else [] := by
  unfold filterF
  split
  · rename_i hk
    rw [List.filter_eq_self]
    intro d hd; rw [h d hd]; exact hk
  · rename_i hk
    rw [List.filter_eq_nil_iff]
    intro d hd; rw [h d hd]; exact hk

theorem filterF_bcast (F : List String) (s : Session) (a : Nat) (m : Out) :
    filterF F (s.bcast a m) = if keepMsg F m then s.bcast a m else [] :=
  filterF_all_same F _ m fun _ hd => (Session.mem_bcast hd).1

theorem filterF_bcastTo (F : List String) (s : Session) (a : Nat) (m : Out) (pids : List Nat) :
    filterF F (s.bcastTo a m pids) = if keepMsg F m then s.bcastTo a m pids else [] :=
  filterF_all_same F _ m fun _ hd => (Session.mem_bcastTo hd).1

theorem filterF_ite (F : List String) (c : Prop) [Decidable c] (a b : List Delivery) :
    filterF F (if c then a else b) = if c then filterF F a else filterF F b := by
  split <;> rfl

end Hagall
