/-
  Lemmas about the cell bookkeeping of the dagaz grid (`Model/GridIndex.lean`).
-/
import Hagall.Model.GridIndex
namespace Hagall.Grid

/-- plane `a` is registered in cell (x, y) -/
def Reg (c : Cells) (a x y : Nat) : Prop := ∃ l, c.get x y = some l ∧ a ∈ l

/-! ### ranges -/

theorem mem_rangeIncl {a b x : Nat} : x ∈ rangeIncl a b ↔ a ≤ x ∧ x ≤ b := by
  unfold rangeIncl
  split
  · simp only [List.mem_map, List.mem_range]
    constructor
    · rintro ⟨k, hk, rfl⟩; omega
    · intro h; exact ⟨x - a, by omega, by omega⟩
  · simp; omega

theorem mem_rangeExcl {a b x : Nat} : x ∈ rangeExcl a b ↔ a ≤ x ∧ x < b := by
  unfold rangeExcl
  split
  · simp only [List.mem_map, List.mem_range]
    constructor
    · rintro ⟨k, hk, rfl⟩; omega
    · intro h; exact ⟨x - a, by omega, by omega⟩
  · simp; omega

theorem mem_rangeDown {hi lo x : Nat} : x ∈ rangeDown hi lo ↔ lo < x ∧ x ≤ hi := by
  unfold rangeDown
  split
  · simp only [List.mem_reverse, List.mem_map, List.mem_range]
    constructor
    · rintro ⟨k, hk, rfl⟩; omega
    · intro h; exact ⟨x - lo - 1, by omega, by omega⟩
  · simp; omega

theorem mem_grid2 {ys xs : List Nat} {x y : Nat} : (x, y) ∈ grid2 ys xs ↔ y ∈ ys ∧ x ∈ xs := by
  unfold grid2
  simp only [List.mem_flatMap, List.mem_map, Prod.mk.injEq]
  constructor
  · rintro ⟨y', hy, x', hx, rfl, rfl⟩; exact ⟨hy, hx⟩
  · rintro ⟨hy, hx⟩; exact ⟨y, hy, x, hx, rfl, rfl⟩

/-! ### one cell -/

theorem get_put {c c' : Cells} {x y : Nat} {l : List Nat} (h : c.put x y l = some c') (x' y' : Nat) :
    c'.get x' y' = if x' = x ∧ y' = y then some l else c.get x' y' := by
  unfold Cells.put at h
  split at h
  · rename_i row hrow
    split at h
    · rename_i hx
      injection h with h; subst h
      have hy : y < c.length := by
        rcases Nat.lt_or_ge y c.length with h | h
        · exact h
        · rw [List.getElem?_eq_none h] at hrow; cases hrow
      unfold Cells.get
      by_cases hyy : y' = y
      · subst hyy
        simp only [List.getElem?_set_self hy, Option.bind_some, hrow]
        by_cases hxx : x' = x
        · subst hxx; simp [List.getElem?_set_self hx]
        · simp [hxx, List.getElem?_set_ne (Ne.symm hxx)]
      · have : ¬ (x' = x ∧ y' = y) := fun h => hyy h.2
        simp [this, List.getElem?_set_ne (Ne.symm hyy)]
    · cases h
  · cases h

theorem put_isSome_of_get {c : Cells} {x y : Nat} {l0 : List Nat} (h : c.get x y = some l0) (l : List Nat) :
    ∃ c', c.put x y l = some c' := by
  unfold Cells.get at h
  unfold Cells.put
  cases hrow : c[y]? with
  | none => simp [hrow] at h
  | some row =>
    simp only [hrow, Option.bind_some] at h
    have : x < row.length := by
      rcases Nat.lt_or_ge x row.length with h' | h'
      · exact h'
      · rw [List.getElem?_eq_none h'] at h; cases h
    simp [this]

/-! ### `removeSwap` -/

theorem mem_cons_dropLast_getLast {xs : List Nat} {z a : Nat} (h : xs.getLast? = some z) :
    a ∈ z :: xs.dropLast ↔ a ∈ xs := by
  have hne : xs ≠ [] := by intro h'; subst h'; simp at h
  have hz : xs.getLast hne = z := by
    have := List.getLast?_eq_some_getLast hne
    rw [this] at h; injection h
  have hx : xs = xs.dropLast ++ [z] := by rw [← hz]; exact (List.dropLast_concat_getLast hne).symm
  constructor
  · intro ha
    rw [hx]
    rcases List.mem_cons.mp ha with rfl | ha
    · simp
    · exact List.mem_append_left _ ha
  · intro ha
    rw [hx] at ha
    rcases List.mem_append.mp ha with ha | ha
    · exact List.mem_cons_of_mem _ ha
    · simp at ha; subst ha; exact List.mem_cons_self ..

theorem mem_removeSwap_of_ne {l : List Nat} {id a : Nat} (hne : a ≠ id) : a ∈ removeSwap l id ↔ a ∈ l := by
  induction l with
  | nil => simp [removeSwap]
  | cons x xs ih =>
    unfold removeSwap
    by_cases hx : x = id
    · subst hx
      simp only [beq_self_eq_true, ↓reduceIte]
      cases hl : xs.getLast? with
      | none =>
        have : xs = [] := by simpa using hl
        subst this; simp [hne]
      | some z =>
        simp only
        rw [mem_cons_dropLast_getLast hl]
        simp [hne]
    · have : (x == id) = false := by simpa using hx
      simp only [this, Bool.false_eq_true, ↓reduceIte, List.mem_cons, ih]

theorem mem_of_mem_removeSwap {l : List Nat} {id a : Nat} (h : a ∈ removeSwap l id) : a ∈ l := by
  by_cases hne : a = id
  · subst hne
    induction l with
    | nil => simp [removeSwap] at h
    | cons x xs ih =>
      unfold removeSwap at h
      by_cases hx : x = a
      · subst hx; exact List.mem_cons_self ..
      · have : (x == a) = false := by simpa using hx
        simp only [this, Bool.false_eq_true, ↓reduceIte, List.mem_cons] at h
        rcases h with h | h
        · exact absurd h.symm hx
        · exact List.mem_cons_of_mem _ (ih h)
  · exact (mem_removeSwap_of_ne hne).mp h

/-! ### a loop over cells -/

/-- `f` applied `n` times -/
def iter {α : Type} (f : α → α) : Nat → α → α
  | 0, a => a
  | n + 1, a => iter f n (f a)


theorem forCells_cons {c : Cells} {xy : Nat × Nat} {cs : List (Nat × Nat)} {f : List Nat → List Nat} :
    c.forCells (xy :: cs) f = ((c.get xy.1 xy.2).bind fun l => c.put xy.1 xy.2 (f l)).bind fun c1 => c1.forCells cs f := by
  simp [Cells.forCells, List.foldlM_cons, bind, Option.bind]

/-- a successful loop applies `f` to a cell once per visit and leaves the shape of the grid alone -/
theorem forCells_get {f : List Nat → List Nat} : ∀ (cs : List (Nat × Nat)) (c c' : Cells), c.forCells cs f = some c' →
    ∀ x y, c'.get x y = (c.get x y).map (iter f (cs.count (x, y))) := by
  intro cs
  induction cs with
  | nil =>
    intro c c' h x y
    simp [Cells.forCells] at h; subst h
    cases c.get x y <;> simp [iter]
  | cons xy cs ih =>
    intro c c' h x y
    rw [forCells_cons] at h
    cases hg : c.get xy.1 xy.2 with
    | none => simp [hg] at h
    | some l0 =>
      simp only [hg, Option.bind_some] at h
      cases hp : c.put xy.1 xy.2 (f l0) with
      | none => simp [hp] at h
      | some c1 =>
        simp only [hp, Option.bind_some] at h
        rw [ih c1 c' h x y, get_put hp x y]
        by_cases hxy : x = xy.1 ∧ y = xy.2
        · obtain ⟨rfl, rfl⟩ := hxy
          simp [hg, List.count_cons_self, iter]
        · have hne : ¬ (xy = (x, y)) := by
            intro h'; apply hxy; rw [h']; exact ⟨rfl, rfl⟩
          have hne' : (xy == (x, y)) = false := by simpa using hne
          simp [hxy, List.count_cons, hne']

/-- every visited cell exists -/
theorem forCells_defined {f : List Nat → List Nat} : ∀ (cs : List (Nat × Nat)) (c c' : Cells), c.forCells cs f = some c' →
    ∀ xy ∈ cs, ∃ l, c.get xy.1 xy.2 = some l := by
  intro cs
  induction cs with
  | nil => intro c c' _ xy h; cases h
  | cons xy0 cs ih =>
    intro c c' h xy hmem
    rw [forCells_cons] at h
    cases hg : c.get xy0.1 xy0.2 with
    | none => simp [hg] at h
    | some l0 =>
      simp only [hg, Option.bind_some] at h
      cases hp : c.put xy0.1 xy0.2 (f l0) with
      | none => simp [hp] at h
      | some c1 =>
        simp only [hp, Option.bind_some] at h
        rcases List.mem_cons.mp hmem with rfl | hm
        · exact ⟨l0, hg⟩
        · obtain ⟨l, hl⟩ := ih c1 c' h xy hm
          rw [get_put hp] at hl
          split at hl
          · rename_i hh; rw [hh.1, hh.2]; exact ⟨l0, hg⟩
          · exact ⟨l, hl⟩

theorem iterate_mem_frame {f : List Nat → List Nat} {a : Nat} (hf : ∀ l, a ∈ f l ↔ a ∈ l) :
    ∀ n l, a ∈ iter f n l ↔ a ∈ l := by
  intro n
  induction n with
  | zero => intro l; rfl
  | succ n ih => intro l; simp only [iter]; rw [ih, hf]

theorem iterate_mem_of {f : List Nat → List Nat} {a : Nat} (hf : ∀ l, a ∈ f l → a ∈ l) :
    ∀ n l, a ∈ iter f n l → a ∈ l := by
  intro n
  induction n with
  | zero => intro l h; exact h
  | succ n ih => intro l h; simp only [iter] at h; exact hf _ (ih _ h)

theorem iterate_mem_mono {f : List Nat → List Nat} {a : Nat} (hf : ∀ l, a ∈ l → a ∈ f l) :
    ∀ n l, a ∈ l → a ∈ iter f n l := by
  intro n
  induction n with
  | zero => intro l h; exact h
  | succ n ih => intro l h; simp only [iter]; exact ih _ (hf _ h)

theorem iterate_append_pos {id : Nat} : ∀ n l, 0 < n → id ∈ iter (fun l => l ++ [id]) n l := by
  intro n
  cases n with
  | zero => intro l h; omega
  | succ n =>
    intro l _
    simp only [iter]
    exact iterate_mem_mono (f := fun l => l ++ [id]) (fun l h => List.mem_append_left _ h) n _ (by simp)

/-- planes that `f` neither adds nor removes stay registered exactly where they were -/
theorem forCells_frame {f : List Nat → List Nat} {cs : List (Nat × Nat)} {c c' : Cells} {a : Nat}
    (h : c.forCells cs f = some c') (hf : ∀ l, a ∈ f l ↔ a ∈ l) (x y : Nat) : Reg c' a x y ↔ Reg c a x y := by
  unfold Reg
  rw [forCells_get cs c c' h x y]
  cases c.get x y with
  | none => simp
  | some l => simp [iterate_mem_frame hf]

/-- cells the loop does not visit are untouched -/
theorem forCells_untouched {f : List Nat → List Nat} {cs : List (Nat × Nat)} {c c' : Cells}
    (h : c.forCells cs f = some c') {x y : Nat} (hxy : (x, y) ∉ cs) : c'.get x y = c.get x y := by
  rw [forCells_get cs c c' h x y, List.count_eq_zero_of_not_mem hxy]
  cases c.get x y <;> simp [iter]

theorem edgeOp_frame {eid a : Nat} (b : Bool) (hne : a ≠ eid) (l : List Nat) : a ∈ edgeOp eid b l ↔ a ∈ l := by
  unfold edgeOp
  cases b
  · simp [mem_removeSwap_of_ne hne]
  · simp [hne]

/-- what one edge loop does to the moved plane: outside the strip nothing, inside an expanding strip it is
    registered, and it is never registered anywhere it was not before unless the strip expands -/
theorem edge_pass {cs : List (Nat × Nat)} {c c' : Cells} {eid : Nat} {b : Bool}
    (h : c.forCells cs (edgeOp eid b) = some c') (x y : Nat) :
    ((x, y) ∉ cs → (Reg c' eid x y ↔ Reg c eid x y)) ∧
    (b = true → (x, y) ∈ cs → Reg c' eid x y) ∧
    (b = true → Reg c eid x y → Reg c' eid x y) := by
  refine ⟨?_, ?_, ?_⟩
  · intro hn; unfold Reg; rw [forCells_untouched h hn]
  · intro hb hm
    subst hb
    obtain ⟨l, hl⟩ := forCells_defined cs c c' h (x, y) hm
    have hl : c.get x y = some l := hl
    have he : edgeOp eid true = fun l => l ++ [eid] := by funext l; simp [edgeOp]
    refine ⟨iter (edgeOp eid true) (cs.count (x, y)) l, ?_, ?_⟩
    · rw [forCells_get cs c c' h x y, hl]; rfl
    · rw [he]
      exact iterate_append_pos _ _ (List.count_pos_iff.mpr hm)
  · intro hb ⟨l, hl, hmem⟩
    subst hb
    refine ⟨iter (edgeOp eid true) (cs.count (x, y)) l, ?_, ?_⟩
    · rw [forCells_get cs c c' h x y, hl]; rfl
    · exact iterate_mem_mono (f := edgeOp eid true) (fun l h => by simp [edgeOp, h]) _ _ hmem

end Hagall.Grid

namespace Hagall.Grid

/-! ### region queries -/

theorem nodup_eraseDups : ∀ (l : List Nat), l.eraseDups.Nodup
  | [] => by simp
  | a :: as => by
    rw [List.eraseDups_cons]
    have hlen : (as.filter fun b => !b == a).length < (a :: as).length :=
      Nat.lt_succ_of_le (List.length_filter_le ..)
    have ih := nodup_eraseDups (as.filter fun b => !b == a)
    refine List.nodup_cons.mpr ⟨?_, ih⟩
    intro hmem
    rw [List.mem_eraseDups, List.mem_filter] at hmem
    simp at hmem
termination_by l => l.length

theorem mapM_option_mem {α β : Type} (f : α → Option β) : ∀ (cs : List α) (ls : List β), cs.mapM f = some ls →
    ∀ l, l ∈ ls ↔ ∃ xy ∈ cs, f xy = some l := by
  intro cs
  induction cs with
  | nil => intro ls h l; simp at h; subst h; simp
  | cons a as ih =>
    intro ls h l
    rw [List.mapM_cons] at h
    cases ha : f a with
    | none => simp [ha] at h
    | some b =>
      cases hr : as.mapM f with
      | none => simp [ha, hr] at h
      | some bs =>
        simp [ha, hr] at h
        subst h
        simp only [List.mem_cons, ih bs hr l]
        constructor
        · rintro (rfl | ⟨xy, hxy, hf⟩)
          · exact ⟨a, Or.inl rfl, ha⟩
          · exact ⟨xy, Or.inr hxy, hf⟩
        · rintro ⟨xy, rfl | hxy, hf⟩
          · rw [ha] at hf; injection hf with hf; exact Or.inl hf.symm
          · exact Or.inr ⟨xy, hxy, hf⟩

/-! ### growing the grid -/

theorem grow_get_shift (c : Cells) (xc yc : Nat) (left top : Bool) {x y : Nat} {l : List Nat}
    (h : c.get x y = some l) :
    (grow c xc yc left top).get (x + if left then xc else 0) (y + if top then yc else 0) = some l := by
  unfold Cells.get at h
  cases hrow : c[y]? with
  | none => simp [hrow] at h
  | some row =>
    simp only [hrow, Option.bind_some] at h
    have hy : y < c.length := by
      rcases Nat.lt_or_ge y c.length with h' | h'
      · exact h'
      · rw [List.getElem?_eq_none h'] at hrow; cases hrow
    have hx : x < row.length := by
      rcases Nat.lt_or_ge x row.length with h' | h'
      · exact h'
      · rw [List.getElem?_eq_none h'] at h; cases h
    unfold grow Cells.get
    simp only []
    have hrow' : ∀ (g : List (List Nat) → List (List Nat)), (c.map g)[y]? = some (g row) := by
      intro g; simp [hrow]
    have hcy : c[y] = row := (List.getElem?_eq_some_iff.mp hrow).2
    have hrx : row[x] = l := (List.getElem?_eq_some_iff.mp h).2
    cases top <;> cases left <;>
      simp [List.getElem?_append_left, List.getElem?_append_right, hy, hx, hrow, h, List.length_replicate, hcy, hrx]

end Hagall.Grid

namespace Hagall.Grid

theorem get_replicate_nil_mem {n x a : Nat} {l : List Nat} (h : (List.replicate n ([] : List Nat))[x]? = some l) : a ∉ l := by
  rw [List.getElem?_replicate] at h
  split at h
  · injection h with h; subst h; simp
  · cases h

/-- growing the grid invents no registration: whatever is registered afterwards was registered, in the
    cell that moved there, before -/
theorem grow_no_phantom (c : Cells) (xc yc : Nat) (left top : Bool) {a x y : Nat}
    (h : Reg (grow c xc yc left top) a x y) :
    ∃ x0 y0, x = x0 + (if left then xc else 0) ∧ y = y0 + (if top then yc else 0) ∧ Reg c a x0 y0 := by
  obtain ⟨l, hl, ha⟩ := h
  unfold grow Cells.get at hl
  simp only [] at hl
  -- the row
  have key : ∀ (rows : List (List (List Nat))) (y0 : Nat), rows = c.map (fun row => if left = true then List.replicate xc [] ++ row else row ++ List.replicate xc []) →
      (rows[y0]?).bind (·[x]?) = some l → ∃ x0, x = x0 + (if left then xc else 0) ∧ Reg c a x0 y0 := by
    intro rows y0 hrows hget
    subst hrows
    rw [List.getElem?_map] at hget
    cases hrow : c[y0]? with
    | none => simp [hrow] at hget
    | some row =>
      simp only [hrow, Option.map_some, Option.bind_some] at hget
      cases left with
      | true =>
        simp only [↓reduceIte] at hget ⊢
        rw [List.getElem?_append] at hget
        split at hget
        · exact absurd ha (get_replicate_nil_mem hget)
        · rename_i hge
          simp only [List.length_replicate, Nat.not_lt] at hge hget
          exact ⟨x - xc, by omega, l, by simp [Cells.get, hrow, hget], ha⟩
      | false =>
        simp only [Bool.false_eq_true, ↓reduceIte] at hget ⊢
        rw [List.getElem?_append] at hget
        split at hget
        · exact ⟨x, by omega, l, by simp [Cells.get, hrow, hget], ha⟩
        · exact absurd ha (get_replicate_nil_mem hget)
  generalize hrows : c.map (fun row => if left = true then List.replicate xc [] ++ row else row ++ List.replicate xc []) = rows at hl
  generalize hw : xc + (Option.map List.length (List.head? c)).getD 0 = width at hl
  cases top with
  | true =>
    simp only [↓reduceIte] at hl ⊢
    rw [List.getElem?_append] at hl
    by_cases hlt : y < (List.replicate yc (List.replicate width ([] : List Nat))).length
    · -- a fresh row
      rw [if_pos hlt, List.getElem?_replicate] at hl
      by_cases hy : y < yc
      · rw [if_pos hy] at hl
        simp only [Option.bind_some] at hl
        exact absurd ha (get_replicate_nil_mem hl)
      · rw [if_neg hy] at hl; simp at hl
    · rw [if_neg hlt] at hl
      simp only [List.length_replicate, Nat.not_lt] at hlt hl
      obtain ⟨x0, hx0, hr⟩ := key rows (y - yc) hrows.symm hl
      exact ⟨x0, y - yc, hx0, by omega, hr⟩
  | false =>
    simp only [Bool.false_eq_true, ↓reduceIte] at hl ⊢
    rw [List.getElem?_append] at hl
    by_cases hlt : y < rows.length
    · rw [if_pos hlt] at hl
      obtain ⟨x0, hx0, hr⟩ := key rows y hrows.symm hl
      exact ⟨x0, y, hx0, by omega, hr⟩
    · rw [if_neg hlt, List.getElem?_replicate] at hl
      by_cases hy : y - rows.length < yc
      · rw [if_pos hy] at hl
        simp only [Option.bind_some] at hl
        exact absurd ha (get_replicate_nil_mem hl)
      · rw [if_neg hy] at hl; simp at hl

end Hagall.Grid
