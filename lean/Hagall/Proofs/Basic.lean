/-
  Helper lemmas: lists, `dedupNat`, broadcast counting.
-/
import Hagall.Model.Server
namespace Hagall

/-! ### dedupNat -/

theorem mem_dedupNat {x : Nat} {l : List Nat} : x ∈ dedupNat l ↔ x ∈ l := by
  induction l with
  | nil => simp [dedupNat]
  | cons y ys ih =>
    simp only [dedupNat, List.mem_cons, List.mem_filter, ih]
    constructor
    · rintro (h | ⟨h, _⟩)
      · exact Or.inl h
      · exact Or.inr h
    · rintro (h | h)
      · exact Or.inl h
      · by_cases hxy : x = y
        · exact Or.inl hxy
        · exact Or.inr ⟨h, by simpa using hxy⟩

theorem nodup_dedupNat (l : List Nat) : (dedupNat l).Nodup := by
  induction l with
  | nil => simp [dedupNat]
  | cons y ys ih =>
    simp only [dedupNat, List.nodup_cons, List.mem_filter]
    refine ⟨?_, ih.sublist List.filter_sublist⟩
    simp

/-! ### counting deliveries -/

/-- number of copies of message `m` delivered to connection `c` -/
def countTo (c : Nat) (m : Out) (ds : List Delivery) : Nat := ds.count (c, m)

@[simp] theorem countTo_nil (c : Nat) (m : Out) : countTo c m [] = 0 := rfl
@[simp] theorem countTo_append (c : Nat) (m : Out) (a b : List Delivery) :
    countTo c m (a ++ b) = countTo c m a + countTo c m b := by simp [countTo]

theorem countTo_cons (c : Nat) (m : Out) (d : Delivery) (ds : List Delivery) :
    countTo c m (d :: ds) = (if d = (c, m) then 1 else 0) + countTo c m ds := by
  simp only [countTo, List.count_cons]
  by_cases h : d = (c, m) <;> simp [h, Nat.add_comm]

/-- In a list of participants with pairwise distinct connections, the number of copies of `m` that a
    map over a filtered participant list sends to `q`'s connection is 1 if `q` passes the filter. -/
theorem count_map_conn (parts : List Part) (hc : (parts.map (·.conn)).Nodup) (q : Part) (hq : q ∈ parts)
    (f : Part → Bool) (m : Out) :
    ((parts.filter f).map fun p => (p.conn, m)).count (q.conn, m) = if f q then 1 else 0 := by
  induction parts with
  | nil => simp at hq
  | cons x xs ih =>
    simp only [List.map_cons, List.nodup_cons, List.mem_map, not_exists, not_and] at hc
    rcases List.mem_cons.mp hq with rfl | hq'
    · -- q is the head: no other part shares its connection
      have hrest : ((xs.filter f).map fun p => (p.conn, m)).count (q.conn, m) = 0 := by
        rw [List.count_eq_zero]
        intro hmem
        obtain ⟨r, hr, hre⟩ := List.mem_map.mp hmem
        have hr' := (List.mem_filter.mp hr).1
        have : r.conn = q.conn := by simpa using congrArg Prod.fst hre
        exact hc.1 r hr' this
      by_cases hf : f q
      · simp [List.filter_cons, hf, List.count_cons, hrest]
      · simp [List.filter_cons, hf, hrest]
    · have hne : x.conn ≠ q.conn := fun h => hc.1 q hq' h.symm
      have := ih hc.2 hq'
      by_cases hf : f x
      · simp only [List.filter_cons, hf, if_true, List.map_cons, List.count_cons, this]
        have : ((x.conn, m) == (q.conn, m)) = false := by simp [hne]
        simp [this]
      · simp [List.filter_cons, hf, this]

theorem Session.count_bcast (s : Session) (hc : (s.parts.map (·.conn)).Nodup) (sender : Nat) (m : Out)
    (q : Part) (hq : q ∈ s.parts) :
    countTo q.conn m (s.bcast sender m) = if q.pid ≠ sender then 1 else 0 := by
  unfold countTo Session.bcast
  rw [count_map_conn s.parts hc q hq]
  simp

/-- every delivery of a broadcast goes to a participant other than the sender and carries `m` -/
theorem Session.mem_bcast {s : Session} {sender : Nat} {m : Out} {d : Delivery} (h : d ∈ s.bcast sender m) :
    d.2 = m ∧ ∃ q ∈ s.parts, q.pid ≠ sender ∧ d.1 = q.conn := by
  unfold Session.bcast at h
  obtain ⟨q, hq, rfl⟩ := List.mem_map.mp h
  have := List.mem_filter.mp hq
  exact ⟨rfl, q, this.1, by simpa using this.2, rfl⟩

end Hagall

namespace Hagall

/-- counting in a `filterMap` over a duplicate-free list when exactly the key `k` maps to `d` -/
theorem count_filterMap_unique {β : Type} [BEq β] [LawfulBEq β] (L : List Nat) (hL : L.Nodup) (g : Nat → Option β) (d : β) (k : Nat)
    (hg : ∀ i, g i = some d ↔ i = k) :
    (L.filterMap g).count d = if k ∈ L then 1 else 0 := by
  induction L with
  | nil => simp
  | cons x xs ih =>
    simp only [List.nodup_cons] at hL
    have ih' := ih hL.2
    by_cases hx : x = k
    · subst hx
      have hgx : g x = some d := (hg x).mpr rfl
      simp [List.filterMap_cons, hgx, ih', hL.1]
    · have hgx : g x ≠ some d := fun h => hx ((hg x).mp h)
      have hk : (k ∈ x :: xs) ↔ k ∈ xs := by
        simp only [List.mem_cons]
        constructor
        · rintro (h | h)
          · exact absurd h.symm hx
          · exact h
        · exact Or.inr
      cases hgv : g x with
      | none => simp [List.filterMap_cons, hgv, ih', hk]
      | some v =>
        have hvd : v ≠ d := fun h => hgx (by rw [hgv, h])
        have hbeq : (v == d) = false := by simpa using hvd
        simp [List.filterMap_cons, hgv, List.count_cons, hbeq, ih', hk]

theorem find_pid_of_mem (parts : List Part) (hp : (parts.map (·.pid)).Nodup) {q : Part} (hq : q ∈ parts) :
    parts.find? (·.pid == q.pid) = some q := by
  induction parts with
  | nil => simp at hq
  | cons x xs ih =>
    simp only [List.map_cons, List.nodup_cons, List.mem_map, not_exists, not_and] at hp
    rcases List.mem_cons.mp hq with rfl | hq'
    · simp
    · have : x.pid ≠ q.pid := fun h => hp.1 q hq' h.symm
      simp [List.find?_cons, this, ih hp.2 hq']

theorem Session.findPart_of_mem (s : Session) (hp : (s.parts.map (·.pid)).Nodup) {q : Part} (hq : q ∈ s.parts) :
    s.findPart q.pid = some q := find_pid_of_mem s.parts hp hq

theorem Session.findPart_some {s : Session} {i : Nat} {p : Part} (h : s.findPart i = some p) :
    p ∈ s.parts ∧ p.pid = i := by
  unfold Session.findPart at h
  exact ⟨List.mem_of_find?_eq_some h, by simpa using List.find?_some h⟩

theorem conn_inj {parts : List Part} (hc : (parts.map (·.conn)).Nodup) {a b : Part} (ha : a ∈ parts) (hb : b ∈ parts)
    (h : a.conn = b.conn) : a = b := by
  induction parts with
  | nil => simp at ha
  | cons x xs ih =>
    simp only [List.map_cons, List.nodup_cons, List.mem_map, not_exists, not_and] at hc
    rcases List.mem_cons.mp ha with rfl | ha' <;> rcases List.mem_cons.mp hb with rfl | hb'
    · rfl
    · exact absurd h.symm (hc.1 b hb')
    · exact absurd h (hc.1 a ha')
    · exact ih hc.2 ha' hb'

theorem Session.count_bcastTo (s : Session) (hc : (s.parts.map (·.conn)).Nodup) (hp : (s.parts.map (·.pid)).Nodup)
    (sender : Nat) (m : Out) (pids : List Nat) (q : Part) (hq : q ∈ s.parts) :
    countTo q.conn m (s.bcastTo sender m pids) = if q.pid ∈ pids ∧ q.pid ≠ sender then 1 else 0 := by
  unfold countTo Session.bcastTo
  rw [count_filterMap_unique _ ((nodup_dedupNat pids).sublist List.filter_sublist) _ (q.conn, m) q.pid]
  · simp [mem_dedupNat]
  · intro i
    constructor
    · intro h
      cases hf : s.findPart i with
      | none => simp [hf] at h
      | some p =>
        simp only [hf, Option.map_some, Option.some.injEq, Prod.mk.injEq, and_true] at h
        obtain ⟨hpm, hpi⟩ := Session.findPart_some hf
        have := conn_inj hc hpm hq h
        rw [← hpi, this]
    · rintro rfl
      simp [s.findPart_of_mem hp hq]

/-- every delivery of a targeted broadcast goes to a named participant other than the sender -/
theorem Session.mem_bcastTo {s : Session} {sender : Nat} {m : Out} {pids : List Nat} {d : Delivery}
    (h : d ∈ s.bcastTo sender m pids) :
    d.2 = m ∧ ∃ q ∈ s.parts, q.pid ≠ sender ∧ q.pid ∈ pids ∧ d.1 = q.conn := by
  unfold Session.bcastTo at h
  obtain ⟨i, hi, hd⟩ := List.mem_filterMap.mp h
  cases hf : s.findPart i with
  | none => simp [hf] at hd
  | some p =>
    simp only [hf, Option.map_some, Option.some.injEq] at hd
    obtain ⟨hpm, hpi⟩ := Session.findPart_some hf
    have hi' := List.mem_filter.mp hi
    refine ⟨by rw [← hd], p, hpm, ?_, ?_, by rw [← hd]⟩
    · have := hi'.2; rw [hpi]; simpa using this
    · rw [hpi]; exact mem_dedupNat.mp hi'.1

theorem Session.count_bcast_ne (s : Session) (sender c : Nat) (m m' : Out) (h : m' ≠ m) :
    countTo c m' (s.bcast sender m) = 0 := by
  unfold countTo; rw [List.count_eq_zero]
  intro hm; exact h (Session.mem_bcast hm).1

theorem Session.setAction_parts (s : Session) (a : Action) : (s.setAction a).parts = s.parts := by
  unfold Session.setAction; split <;> rfl

theorem Session.setAsset_parts (s : Session) (a : Asset) : (s.setAsset a).parts = s.parts := by
  unfold Session.setAsset; split <;> rfl

end Hagall

namespace Hagall

theorem Session.bcast_congr {s t : Session} (h : t.parts = s.parts) (a : Nat) (m : Out) : t.bcast a m = s.bcast a m := by
  unfold Session.bcast; rw [h]

/-- counting in a `flatMap` over a duplicate-free list when only the key `k` can produce `d` -/
theorem count_flatMap_unique {β : Type} [BEq β] [LawfulBEq β] (L : List Nat) (hL : L.Nodup) (f : Nat → List β) (d : β) (k : Nat)
    (hf : ∀ i, i ≠ k → d ∉ f i) : (L.flatMap f).count d = if k ∈ L then (f k).count d else 0 := by
  induction L with
  | nil => simp
  | cons x xs ih =>
    simp only [List.nodup_cons] at hL
    simp only [List.flatMap_cons, List.count_append, ih hL.2]
    by_cases hx : x = k
    · subst hx
      simp [hL.1]
    · have h0 : (f x).count d = 0 := List.count_eq_zero.mpr (hf x hx)
      have hk : (k ∈ x :: xs) ↔ k ∈ xs := by
        simp only [List.mem_cons]
        constructor
        · rintro (h | h)
          · exact absurd h.symm hx
          · exact h
        · exact Or.inr
      simp [h0, hk]

end Hagall
