/-
  The server-level well-formedness invariant (registry, session-id generator, membership) and its
  preservation by every event: `WF init`, `WF srv → WF (step cfg srv e).1`.
-/
import Hagall.Proofs.Frame
namespace Hagall

/-- membership well-formedness of one session -/
structure Session.MembersOK (s : Session) : Prop where
  nonempty : s.parts ≠ []
  pids_nodup : (s.parts.map (·.pid)).Nodup
  conns_nodup : (s.parts.map (·.conn)).Nodup
  pid_pos : ∀ p ∈ s.parts, 0 < p.pid ∧ p.pid ≤ s.pidCur

structure Server.WF (srv : Server) : Prop where
  ids_nodup : (srv.sessions.map (·.id)).Nodup
  members : ∀ s ∈ srv.sessions, s.MembersOK
  /-- a connection is a participant of at most one session -/
  conn_unique : ∀ s1 ∈ srv.sessions, ∀ s2 ∈ srv.sessions, ∀ p1 ∈ s1.parts, ∀ p2 ∈ s2.parts,
      p1.conn = p2.conn → s1.id = s2.id
  id_range : ∀ s ∈ srv.sessions, 0 < s.id ∧ s.id ≤ srv.ids.cur ∧ s.id ∉ srv.ids.pool
  pool_nodup : srv.ids.pool.Nodup
  pool_range : ∀ x ∈ srv.ids.pool, 0 < x ∧ x ≤ srv.ids.cur
  gauge_eq : srv.gauge = srv.sessions.length
  uuid_range : ∀ s ∈ srv.sessions, 0 < s.uuid ∧ s.uuid ≤ srv.uuidCur
  uuid_nodup : (srv.sessions.map (·.uuid)).Nodup

theorem Server.WF_init : (({} : Server)).WF := by
  constructor <;> simp

/-! ### lookups -/

theorem Server.locate_some {srv : Server} {c : Nat} {s : Session} {p : Part} (h : srv.locate c = some (s, p)) :
    s ∈ srv.sessions ∧ p ∈ s.parts ∧ p.conn = c := by
  unfold Server.locate at h
  obtain ⟨x, hx, hf⟩ := List.exists_of_findSome?_eq_some h
  cases hp : x.parts.find? (·.conn == c) with
  | none => simp [hp] at hf
  | some q =>
    simp only [hp, Option.map_some, Option.some.injEq, Prod.mk.injEq] at hf
    obtain ⟨rfl, rfl⟩ := hf
    exact ⟨hx, List.mem_of_find?_eq_some hp, by simpa using List.find?_some hp⟩

theorem Server.locate_none {srv : Server} {c : Nat} (h : srv.locate c = none) :
    ∀ s ∈ srv.sessions, ∀ p ∈ s.parts, p.conn ≠ c := by
  unfold Server.locate at h
  rw [List.findSome?_eq_none_iff] at h
  intro s hs p hp hc
  have := h s hs
  simp only [Option.map_eq_none_iff] at this
  rw [List.find?_eq_none] at this
  exact this p hp (by simpa using hc)

theorem Server.findSession_some {srv : Server} {n : Nat} {s : Session} (h : srv.findSession n = some s) :
    s ∈ srv.sessions ∧ s.id = n := by
  unfold Server.findSession at h
  exact ⟨List.mem_of_find?_eq_some h, by simpa using List.find?_some h⟩

/-! ### replacing a session by one with the same membership -/

theorem id_inj {l : List Session} (hn : (l.map (·.id)).Nodup) {a b : Session} (ha : a ∈ l) (hb : b ∈ l)
    (h : a.id = b.id) : a = b := by
  induction l with
  | nil => simp at ha
  | cons z zs ih =>
    simp only [List.map_cons, List.nodup_cons, List.mem_map, not_exists, not_and] at hn
    rcases List.mem_cons.mp ha with rfl | ha' <;> rcases List.mem_cons.mp hb with rfl | hb'
    · rfl
    · exact absurd h.symm (hn.1 b hb')
    · exact absurd h (hn.1 a ha')
    · exact ih hn.2 ha' hb'

theorem Server.mem_setSession {srv : Server} {s' x : Session} (hx : x ∈ (srv.setSession s').sessions) :
    (x ∈ srv.sessions ∧ x.id ≠ s'.id) ∨ (x = s' ∧ ∃ y ∈ srv.sessions, y.id = s'.id) := by
  simp only [Server.setSession, List.mem_map] at hx
  obtain ⟨y, hy, rfl⟩ := hx
  by_cases h : (y.id == s'.id) = true
  · right; simp only [h, if_true, true_and]; exact ⟨y, hy, by simpa using h⟩
  · left; simp only [h, if_false, Bool.false_eq_true]; exact ⟨hy, by simpa using h⟩

theorem Server.setSession_ids (srv : Server) (s' : Session) :
    (srv.setSession s').sessions.map (·.id) = srv.sessions.map (·.id) := by
  simp only [Server.setSession, List.map_map]
  apply List.map_congr_left
  intro y _
  simp only [Function.comp]
  split
  · rename_i h; exact (by simpa using h : y.id = s'.id).symm
  · rfl

theorem Server.setSession_uuids (srv : Server) (s s' : Session) (hs : s ∈ srv.sessions)
    (hn : (srv.sessions.map (·.id)).Nodup) (hid : s'.id = s.id) (hu : s'.uuid = s.uuid) :
    (srv.setSession s').sessions.map (·.uuid) = srv.sessions.map (·.uuid) := by
  simp only [Server.setSession, List.map_map]
  apply List.map_congr_left
  intro y hy
  simp only [Function.comp]
  split
  · rename_i h
    have hyid : y.id = s.id := by rw [← hid]; simpa using h
    -- ids are unique: y is s
    have : y = s := id_inj hn hy hs hyid
    rw [hu, this]
  · rfl

/-- replacing a session by one with the same identity whose participants are a non-empty sublist -/
theorem Server.setSession_shrink_WF {srv : Server} (h : srv.WF) {s s' : Session} (hs : s ∈ srv.sessions)
    (hid : s'.id = s.id) (huu : s'.uuid = s.uuid) (hpc : s'.pidCur = s.pidCur)
    (hsub : s'.parts.Sublist s.parts) (hne : s'.parts ≠ []) : (srv.setSession s').WF := by
  have hmem : ∀ x ∈ (srv.setSession s').sessions, ∃ y ∈ srv.sessions, y.id = x.id ∧ y.uuid = x.uuid ∧
      y.pidCur = x.pidCur ∧ x.parts.Sublist y.parts ∧ x.parts ≠ [] := by
    intro x hx
    rcases Server.mem_setSession hx with ⟨h1, _⟩ | ⟨rfl, _⟩
    · exact ⟨x, h1, rfl, rfl, rfl, List.Sublist.refl _, (h.members x h1).nonempty⟩
    · exact ⟨s, hs, hid.symm, huu.symm, hpc.symm, hsub, hne⟩
  constructor
  · rw [Server.setSession_ids]; exact h.ids_nodup
  · intro x hx
    obtain ⟨y, hy, _, _, h3, h4, h5⟩ := hmem x hx
    have := h.members y hy
    exact ⟨h5, (h4.map _).nodup this.pids_nodup, (h4.map _).nodup this.conns_nodup,
           fun q hq => by rw [← h3]; exact this.pid_pos q (h4.subset hq)⟩
  · intro x1 hx1 x2 hx2 p1 hp1 p2 hp2 hc
    obtain ⟨y1, hy1, i1, _, _, q1, _⟩ := hmem x1 hx1
    obtain ⟨y2, hy2, i2, _, _, q2, _⟩ := hmem x2 hx2
    rw [← i1, ← i2]
    exact h.conn_unique y1 hy1 y2 hy2 p1 (q1.subset hp1) p2 (q2.subset hp2) hc
  · intro x hx
    obtain ⟨y, hy, i1, _, _, _⟩ := hmem x hx
    rw [← i1]; exact h.id_range y hy
  · exact h.pool_nodup
  · exact h.pool_range
  · simp only [Server.setSession, List.length_map]; exact h.gauge_eq
  · intro x hx
    obtain ⟨y, hy, _, i2, _, _⟩ := hmem x hx
    rw [← i2]; exact h.uuid_range y hy
  · rw [Server.setSession_uuids srv s s' hs h.ids_nodup hid huu]; exact h.uuid_nodup

theorem Server.setSession_WF {srv : Server} (h : srv.WF) {s s' : Session} (hs : s ∈ srv.sessions)
    (hm : s.sameMembers s') : (srv.setSession s').WF := by
  obtain ⟨hid, huu, hpc, hparts⟩ := hm
  exact Server.setSession_shrink_WF h hs hid huu hpc (by rw [hparts]; exact List.Sublist.refl _) (by rw [hparts]; exact (h.members s hs).nonempty)

/-! ### the id generator -/

@[simp] theorem IdGen.reuse_cur (g : IdGen) (x : Nat) : (g.reuse x).cur = g.cur := by
  unfold IdGen.reuse; split <;> rfl

theorem IdGen.mem_reuse_pool (g : IdGen) (x y : Nat) : y ∈ (g.reuse x).pool ↔ y ∈ g.pool ∨ y = x := by
  unfold IdGen.reuse
  split
  · rename_i h
    have hx : x ∈ g.pool := by simpa using h
    constructor
    · exact Or.inl
    · rintro (h | rfl)
      · exact h
      · exact hx
  · simp

theorem IdGen.reuse_pool_nodup (g : IdGen) (x : Nat) (h : g.pool.Nodup) : (g.reuse x).pool.Nodup := by
  unfold IdGen.reuse
  split
  · exact h
  · rename_i hx
    have hx' : x ∉ g.pool := by simpa using hx
    rw [List.nodup_append]
    refine ⟨h, by simp, ?_⟩
    intro a ha b hb
    simp only [List.mem_singleton] at hb
    subst hb
    intro hab; subst hab
    exact hx' ha

/-! ### departure -/

theorem length_filter_id {l : List Session} (hn : (l.map (·.id)).Nodup) {s : Session} (hs : s ∈ l) :
    (l.filter (·.id != s.id)).length + 1 = l.length := by
  induction l with
  | nil => simp at hs
  | cons z zs ih =>
    simp only [List.map_cons, List.nodup_cons, List.mem_map, not_exists, not_and] at hn
    rcases List.mem_cons.mp hs with rfl | hs'
    · have : zs.filter (·.id != s.id) = zs := by
        rw [List.filter_eq_self]
        intro y hy
        have := hn.1 y hy
        simpa using this
      simp [List.filter_cons, this]
    · have hne : z.id ≠ s.id := fun h => hn.1 s hs' h.symm
      have : (z.id != s.id) = true := by simpa using hne
      simp only [List.filter_cons, this, if_true, List.length_cons]
      rw [ih hn.2 hs']

theorem Session.leave_frame (cfg : Cfg) (s : Session) (pid : Nat) :
    (s.leave cfg pid).1.id = s.id ∧ (s.leave cfg pid).1.uuid = s.uuid ∧ (s.leave cfg pid).1.pidCur = s.pidCur ∧
    (s.leave cfg pid).1.parts = s.parts.filter (·.pid != pid) := by
  simp [Session.leave]

theorem Server.leave_WF (cfg : Cfg) {srv : Server} (h : srv.WF) {s : Session} {p : Part} (hs : s ∈ srv.sessions) :
    (srv.leave cfg s p).1.WF := by
  obtain ⟨f1, f2, f3, f4⟩ := Session.leave_frame cfg s p.pid
  unfold Server.leave
  rcases hl : s.leave cfg p.pid with ⟨s', ds⟩
  rw [hl] at f1 f2 f3 f4
  simp only []
  split
  · -- the session ends
    have hr := h.id_range s hs
    constructor
    · exact (List.Sublist.map _ List.filter_sublist).nodup h.ids_nodup
    · intro x hx; exact h.members x (List.mem_filter.mp hx).1
    · intro x1 hx1 x2 hx2 p1 hp1 p2 hp2 hc
      exact h.conn_unique x1 (List.mem_filter.mp hx1).1 x2 (List.mem_filter.mp hx2).1 p1 hp1 p2 hp2 hc
    · intro x hx
      have hx' := List.mem_filter.mp hx
      have hxne : x.id ≠ s.id := by simpa using hx'.2
      have := h.id_range x hx'.1
      refine ⟨this.1, by simpa using this.2.1, ?_⟩
      simp only [IdGen.mem_reuse_pool, not_or]
      exact ⟨this.2.2, hxne⟩
    · exact IdGen.reuse_pool_nodup _ _ h.pool_nodup
    · intro x hx
      simp only [IdGen.mem_reuse_pool] at hx
      simp only [IdGen.reuse_cur]
      rcases hx with hx | rfl
      · exact h.pool_range x hx
      · exact ⟨hr.1, hr.2.1⟩
    · have := length_filter_id h.ids_nodup hs
      simp only [h.gauge_eq]
      omega
    · intro x hx; exact h.uuid_range x (List.mem_filter.mp hx).1
    · exact (List.Sublist.map _ List.filter_sublist).nodup h.uuid_nodup
  · rename_i hne
    apply Server.setSession_shrink_WF h hs f1 f2 f3
    · rw [f4]; exact List.filter_sublist
    · intro hnil; apply hne; rw [hnil]; rfl

end Hagall

namespace Hagall

theorem IdGen.new_spec (g : IdGen) (hint : Nat) :
    ((g.new hint).1 ∈ g.pool ∧ (g.new hint).2.pool = g.pool.filter (· != (g.new hint).1) ∧ (g.new hint).2.cur = g.cur) ∨
    (g.pool = [] ∧ (g.new hint).1 = g.cur + 1 ∧ (g.new hint).2.cur = g.cur + 1 ∧ (g.new hint).2.pool = []) := by
  unfold IdGen.new
  cases hp : g.pool with
  | nil => right; simp
  | cons x xs =>
    left
    refine ⟨?_, rfl, rfl⟩
    simp only []
    split
    · rename_i h; simpa using h
    · simp

/-! ### joining -/

theorem Server.setSession_grow_WF {srv : Server} (h : srv.WF) {s s' : Session} (hs : s ∈ srv.sessions) (c : Nat)
    (hid : s'.id = s.id) (huu : s'.uuid = s.uuid) (hpc : s'.pidCur = s.pidCur + 1)
    (hparts : s'.parts = s.parts ++ [⟨s.pidCur + 1, c⟩])
    (hfresh : ∀ x ∈ srv.sessions, ∀ q ∈ x.parts, q.conn ≠ c) : (srv.setSession s').WF := by
  have hm := h.members s hs
  have hmem : ∀ x ∈ (srv.setSession s').sessions, (x ∈ srv.sessions ∧ x.id ≠ s.id) ∨ x = s' := by
    intro x hx
    rcases Server.mem_setSession hx with ⟨h1, h2⟩ | ⟨rfl, _⟩
    · exact Or.inl ⟨h1, by rw [← hid]; exact h2⟩
    · exact Or.inr rfl
  have hs'ok : s'.MembersOK := by
    refine ⟨by rw [hparts]; simp, ?_, ?_, ?_⟩
    · rw [hparts, List.map_append, List.nodup_append]
      refine ⟨hm.pids_nodup, by simp, ?_⟩
      intro a ha b hb
      simp only [List.map_cons, List.map_nil, List.mem_singleton] at hb
      obtain ⟨q, hq, rfl⟩ := List.mem_map.mp ha
      have := (hm.pid_pos q hq).2
      omega
    · rw [hparts, List.map_append, List.nodup_append]
      refine ⟨hm.conns_nodup, by simp, ?_⟩
      intro a ha b hb
      simp only [List.map_cons, List.map_nil, List.mem_singleton] at hb
      obtain ⟨q, hq, rfl⟩ := List.mem_map.mp ha
      rw [hb]; exact hfresh s hs q hq
    · intro q hq
      rw [hparts] at hq
      rw [hpc]
      rcases List.mem_append.mp hq with hq | hq
      · have := hm.pid_pos q hq; omega
      · simp only [List.mem_singleton] at hq; subst hq; simp
  constructor
  · rw [Server.setSession_ids]; exact h.ids_nodup
  · intro x hx
    rcases hmem x hx with ⟨h1, _⟩ | rfl
    · exact h.members x h1
    · exact hs'ok
  · intro x1 hx1 x2 hx2 p1 hp1 p2 hp2 hc
    rcases hmem x1 hx1 with ⟨h1, n1⟩ | rfl <;> rcases hmem x2 hx2 with ⟨h2, n2⟩ | rfl
    · exact h.conn_unique x1 h1 x2 h2 p1 hp1 p2 hp2 hc
    · rw [hparts] at hp2
      rcases List.mem_append.mp hp2 with hp2 | hp2
      · rw [hid]; exact h.conn_unique x1 h1 s hs p1 hp1 p2 hp2 hc
      · simp only [List.mem_singleton] at hp2; subst hp2
        exact absurd hc (hfresh x1 h1 p1 hp1)
    · rw [hparts] at hp1
      rcases List.mem_append.mp hp1 with hp1 | hp1
      · rw [hid]; exact h.conn_unique s hs x2 h2 p1 hp1 p2 hp2 hc
      · simp only [List.mem_singleton] at hp1; subst hp1
        exact absurd hc.symm (hfresh x2 h2 p2 hp2)
    · rfl
  · intro x hx
    rcases hmem x hx with ⟨h1, _⟩ | rfl
    · exact h.id_range x h1
    · rw [hid]; exact h.id_range s hs
  · exact h.pool_nodup
  · exact h.pool_range
  · simp only [Server.setSession, List.length_map]; exact h.gauge_eq
  · intro x hx
    rcases hmem x hx with ⟨h1, _⟩ | rfl
    · exact h.uuid_range x h1
    · rw [huu]; exact h.uuid_range s hs
  · rw [Server.setSession_uuids srv s s' hs h.ids_nodup hid huu]; exact h.uuid_nodup

theorem Server.joinFresh_WF (cfg : Cfg) {srv : Server} (h : srv.WF) (c rid ots : Nat) (target : JoinTarget) (hint : Nat)
    (hfresh : ∀ x ∈ srv.sessions, ∀ q ∈ x.parts, q.conn ≠ c) : (srv.joinFresh cfg c rid ots target hint).1.WF := by
  unfold Server.joinFresh
  cases target with
  | bogus => exact h
  | id n =>
    simp only []
    cases hf : srv.findSession n with
    | none => exact h
    | some s =>
      obtain ⟨hs, _⟩ := Server.findSession_some hf
      exact Server.setSession_grow_WF h hs c rfl rfl rfl rfl hfresh
  | new =>
    simp only [Session.addPart]
    have hspec := IdGen.new_spec srv.ids hint
    rcases hnew : srv.ids.new hint with ⟨id, g⟩
    rw [hnew] at hspec
    simp only [] at hspec ⊢
    -- facts about the fresh id
    have hidpos : 0 < id ∧ id ≤ g.cur ∧ id ∉ g.pool ∧ (∀ s ∈ srv.sessions, s.id ≠ id) ∧
        (∀ x ∈ g.pool, x ∈ srv.ids.pool) ∧ srv.ids.cur ≤ g.cur ∧ g.pool.Nodup := by
      rcases hspec with ⟨hin, hpool, hcur⟩ | ⟨hnil, hid, hcur, hpool⟩
      · have hr := h.pool_range id hin
        refine ⟨hr.1, by rw [hcur]; exact hr.2, ?_, ?_, ?_, by rw [hcur]; exact Nat.le_refl _, ?_⟩
        · rw [hpool]; simp
        · intro s hs heq; exact (h.id_range s hs).2.2 (heq ▸ hin)
        · intro x hx; rw [hpool] at hx; exact (List.mem_filter.mp hx).1
        · rw [hpool]; exact h.pool_nodup.sublist List.filter_sublist
      · refine ⟨by omega, by omega, by rw [hpool]; simp, ?_, by rw [hpool]; simp, by omega, by rw [hpool]; simp⟩
        intro s hs heq; have := (h.id_range s hs).2.1; omega
    obtain ⟨h1, h2, h3, h4, h5, h6, h7⟩ := hidpos
    constructor
    · simp only [List.map_append, List.map_cons, List.map_nil]
      rw [List.nodup_append]
      refine ⟨h.ids_nodup, by simp, ?_⟩
      intro a ha b hb
      simp only [List.mem_singleton] at hb
      obtain ⟨s, hs, rfl⟩ := List.mem_map.mp ha
      rw [hb]; exact h4 s hs
    · intro x hx
      rcases List.mem_append.mp hx with hx | hx
      · exact h.members x hx
      · simp only [List.mem_singleton] at hx; subst hx
        exact ⟨by simp, by simp, by simp, by simp⟩
    · intro x1 hx1 x2 hx2 p1 hp1 p2 hp2 hc
      rcases List.mem_append.mp hx1 with hx1 | hx1 <;> rcases List.mem_append.mp hx2 with hx2 | hx2
      · exact h.conn_unique x1 hx1 x2 hx2 p1 hp1 p2 hp2 hc
      · simp only [List.mem_singleton] at hx2; subst hx2
        simp only [List.nil_append, List.mem_singleton] at hp2; subst hp2
        exact absurd hc (hfresh x1 hx1 p1 hp1)
      · simp only [List.mem_singleton] at hx1; subst hx1
        simp only [List.nil_append, List.mem_singleton] at hp1; subst hp1
        exact absurd hc.symm (hfresh x2 hx2 p2 hp2)
      · simp only [List.mem_singleton] at hx1 hx2; rw [hx1, hx2]
    · intro x hx
      rcases List.mem_append.mp hx with hx | hx
      · have := h.id_range x hx
        exact ⟨this.1, Nat.le_trans this.2.1 h6, fun hp => this.2.2 (h5 _ hp)⟩
      · simp only [List.mem_singleton] at hx; subst hx; exact ⟨h1, h2, h3⟩
    · exact h7
    · intro x hx; have := h.pool_range x (h5 x hx); exact ⟨this.1, Nat.le_trans this.2 h6⟩
    · simp only [List.length_append, List.length_cons, List.length_nil, h.gauge_eq]; omega
    · intro x hx
      rcases List.mem_append.mp hx with hx | hx
      · have := h.uuid_range x hx; exact ⟨this.1, Nat.le_succ_of_le this.2⟩
      · simp only [List.mem_singleton] at hx; subst hx; simp
    · simp only [List.map_append, List.map_cons, List.map_nil]
      rw [List.nodup_append]
      refine ⟨h.uuid_nodup, by simp, ?_⟩
      intro a ha b hb
      simp only [List.mem_singleton] at hb
      obtain ⟨s, hs, rfl⟩ := List.mem_map.mp ha
      have := (h.uuid_range s hs).2
      omega

end Hagall

namespace Hagall

/-- after leaving, the connection is a participant of no session -/
theorem Server.leave_removes_conn (cfg : Cfg) {srv : Server} (h : srv.WF) {c : Nat} {s : Session} {p : Part}
    (hl : srv.locate c = some (s, p)) :
    ∀ x ∈ (srv.leave cfg s p).1.sessions, ∀ q ∈ x.parts, q.conn ≠ c := by
  obtain ⟨hs, hp, hpc⟩ := Server.locate_some hl
  obtain ⟨f1, f2, f3, f4⟩ := Session.leave_frame cfg s p.pid
  have hm := h.members s hs
  -- in the shrunken session nobody has connection c
  have hshrunk : ∀ q ∈ s.parts.filter (·.pid != p.pid), q.conn ≠ c := by
    intro q hq hqc
    have hq' := List.mem_filter.mp hq
    have : q = p := conn_inj hm.conns_nodup hq'.1 hp (by rw [hqc, hpc])
    rw [this] at hq'
    simp at hq'
  -- in any other session nobody has connection c
  have hother : ∀ x ∈ srv.sessions, x.id ≠ s.id → ∀ q ∈ x.parts, q.conn ≠ c := by
    intro x hx hne q hq hqc
    exact hne (h.conn_unique x hx s hs q hq p hp (by rw [hqc, hpc]))
  unfold Server.leave
  rcases hle : s.leave cfg p.pid with ⟨s', ds⟩
  rw [hle] at f1 f4
  simp only []
  split
  · intro x hx q hq
    have hx' := List.mem_filter.mp hx
    exact hother x hx'.1 (by simpa using hx'.2) q hq
  · intro x hx q hq
    rcases Server.mem_setSession hx with ⟨h1, h2⟩ | ⟨rfl, _⟩
    · exact hother x h1 (by rw [← f1]; exact h2) q hq
    · rw [f4] at hq; exact hshrunk q hq

theorem Server.join_WF (cfg : Cfg) {srv : Server} (h : srv.WF) (c rid ots : Nat) (target : JoinTarget) (hint : Nat) :
    (srv.join cfg c rid ots target hint).1.WF := by
  unfold Server.join
  cases hl : srv.locate c with
  | none =>
    exact Server.joinFresh_WF cfg h c rid ots target hint (Server.locate_none hl)
  | some sp =>
    obtain ⟨s, p⟩ := sp
    simp only []
    split
    · exact h
    · split
      · exact h
      · have hs := (Server.locate_some hl).1
        have h1 := Server.leave_WF cfg h (p := p) hs
        have h2 := Server.leave_removes_conn cfg h hl
        rcases hle : srv.leave cfg s p with ⟨srv', ds⟩
        rw [hle] at h1 h2
        have := Server.joinFresh_WF cfg h1 c rid ots target hint h2
        rcases hj : srv'.joinFresh cfg c rid ots target hint with ⟨srv'', ds', o⟩
        rw [hj] at this
        exact this

theorem Server.handleReq_WF (cfg : Cfg) {srv : Server} (h : srv.WF) (c : Nat) (r : Req) (hint : Nat) :
    (srv.handleReq cfg c r hint).1.WF := by
  unfold Server.handleReq
  split
  next => exact h
  next => exact Server.join_WF cfg h c _ _ _ hint
  next =>
    unfold Server.handleReceipt
    split
    · exact h
    · split
      · exact ⟨h.ids_nodup, h.members, h.conn_unique, h.id_range, h.pool_nodup, h.pool_range, h.gauge_eq, h.uuid_range, h.uuid_nodup⟩
      · exact h
  next r' _ _ _ =>
    cases hl : srv.locate c with
    | none => simp only []; exact h
    | some sp =>
      obtain ⟨s, p⟩ := sp
      simp only []
      have hs := (Server.locate_some hl).1
      have := s.handle_sameMembers cfg p r hint
      rcases hh : s.handle cfg p r hint with ⟨s', ds, o⟩
      rw [hh] at this
      exact Server.setSession_WF h hs this

/-- membership well-formedness does not look at connections, queues or receipts -/
theorem Server.WF_of_sessions_eq {a b : Server} (h : a.WF) (hs : b.sessions = a.sessions) (hi : b.ids = a.ids)
    (hg : b.gauge = a.gauge) (hu : b.uuidCur = a.uuidCur) : b.WF := by
  constructor
  · rw [hs]; exact h.ids_nodup
  · rw [hs]; exact h.members
  · rw [hs]; exact h.conn_unique
  · rw [hs, hi]; exact h.id_range
  · rw [hi]; exact h.pool_nodup
  · rw [hi]; exact h.pool_range
  · rw [hs, hg]; exact h.gauge_eq
  · rw [hs, hu]; exact h.uuid_range
  · rw [hs]; exact h.uuid_nodup

theorem Server.disconnect_WF (cfg : Cfg) {srv : Server} (h : srv.WF) (c : Nat) : (srv.disconnect cfg c).1.WF := by
  unfold Server.disconnect
  cases hl : srv.locate c with
  | none => exact Server.WF_of_sessions_eq h rfl rfl rfl rfl
  | some sp =>
    obtain ⟨s, p⟩ := sp
    have := Server.leave_WF cfg h (p := p) (Server.locate_some hl).1
    simp only []
    rcases hle : srv.leave cfg s p with ⟨srv', ds⟩
    rw [hle] at this
    exact Server.WF_of_sessions_eq this rfl rfl rfl rfl

theorem Server.beforeDispatch_WF {srv : Server} (h : srv.WF) (k : Conn) (r : Req) : (srv.beforeDispatch k r).1.WF := by
  unfold Server.beforeDispatch
  split
  · exact Server.WF_of_sessions_eq h rfl rfl rfl rfl
  · exact h

theorem step_WF (cfg : Cfg) {srv : Server} (h : srv.WF) (e : Event) : (step cfg srv e).1.WF := by
  unfold step
  cases e with
  | connect c =>
    simp only []
    split
    · exact h
    · exact Server.WF_of_sessions_eq h rfl rfl rfl rfl
  | recv c r =>
    simp only []
    split
    · exact h
    · rename_i k _
      have hb : (srv.beforeDispatch k r).1.WF := by
        unfold Server.beforeDispatch
        split
        · exact Server.WF_of_sessions_eq h rfl rfl rfl rfl
        · exact h
      split
      · exact Server.WF_of_sessions_eq hb rfl rfl rfl rfl
      · have := Server.disconnect_WF cfg hb c
        rcases hd : (srv.beforeDispatch k r).1.disconnect cfg c with ⟨a, b⟩
        rw [hd] at this; exact this
  | handle c pick hint =>
    simp only []
    split
    · exact h
    · split
      · exact h
      · rename_i k _ r k' _
        have h0 : (srv.setConn k').WF := Server.WF_of_sessions_eq h rfl rfl rfl rfl
        have h1 := Server.handleReq_WF cfg h0 c r hint
        rcases hh : (srv.setConn k').handleReq cfg c r hint with ⟨srv', ds, o⟩
        rw [hh] at h1
        simp only []
        cases o with
        | ok => exact h1
        | connError =>
          have := Server.disconnect_WF cfg h1 c
          rcases hd : srv'.disconnect cfg c with ⟨a, b⟩
          rw [hd] at this; exact this
        | panic site => exact Server.WF_of_sessions_eq h1 rfl rfl rfl rfl
  | tick sid =>
    simp only []
    split
    · exact h
    · exact Server.WF_of_sessions_eq h rfl rfl rfl rfl
  | disconnect c =>
    simp only []
    have := Server.disconnect_WF cfg h c
    rcases hd : srv.disconnect cfg c with ⟨a, b⟩
    rw [hd] at this; exact this
  | drain => simp only []; exact Server.WF_of_sessions_eq h rfl rfl rfl rfl

/-- every state reachable by any history from the initial server is well-formed -/
theorem run_WF (cfg : Cfg) (h : List Event) {srv : Server} (hw : srv.WF) : (run cfg srv h).1.WF := by
  induction h generalizing srv with
  | nil => exact hw
  | cons e es ih =>
    simp only [run]
    have := step_WF cfg hw e
    rcases hs : step cfg srv e with ⟨srv', ds, o⟩
    rw [hs] at this
    have := ih this
    rcases hr : run cfg srv' es with ⟨a, b⟩
    rw [hr] at this
    exact this

end Hagall
