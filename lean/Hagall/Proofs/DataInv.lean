/-
  The data invariant of one session (entities, types, components, module attachments) and its
  preservation by every request and by departures.
-/
import Hagall.Proofs.Frame
namespace Hagall

structure Session.DataOK (s : Session) : Prop where
  eids_nodup : (s.ents.map (·.id)).Nodup
  eid_range : ∀ e ∈ s.ents, 0 < e.id ∧ e.id ≤ s.eidCur
  tids_nodup : (s.types.map (·.1)).Nodup
  names_nodup : (s.types.map (·.2)).Nodup
  tid_range : ∀ t ∈ s.types, 0 < t.1 ∧ t.1 ≤ s.tidCur
  comp_keys : (s.comps.map fun c => (c.tid, c.eid)).Nodup
  comp_ent : ∀ c ∈ s.comps, (s.findEnt c.eid).isSome
  comp_type : ∀ c ∈ s.comps, (s.typeName c.tid).isSome
  act_ent : ∀ a ∈ s.actions, (s.findEnt a.eid).isSome
  act_keys : (s.actions.map fun a => (a.eid, a.name)).Nodup
  asset_ent : ∀ a ∈ s.assets, (s.findEnt a.eid).isSome
  asset_eids : (s.assets.map (·.eid)).Nodup
  asset_ids : (s.assets.map (·.id)).Nodup
  asset_range : ∀ a ∈ s.assets, 0 < a.id ∧ a.id ≤ s.assetCur

theorem Session.DataOK_fresh (id uuid : Nat) : ({ id, uuid } : Session).DataOK := by
  constructor <;> simp

theorem findEnt_isSome_iff (s : Session) (eid : Nat) : (s.findEnt eid).isSome = true ↔ ∃ e ∈ s.ents, e.id = eid := by
  unfold Session.findEnt
  rw [List.find?_isSome]
  simp

theorem findEnt_some_mem {s : Session} {eid : Nat} {e : Entity} (h : s.findEnt eid = some e) : e ∈ s.ents ∧ e.id = eid := by
  unfold Session.findEnt at h
  exact ⟨List.mem_of_find?_eq_some h, by simpa using List.find?_some h⟩

theorem typeName_isSome_iff (s : Session) (tid : Nat) : (s.typeName tid).isSome = true ↔ ∃ t ∈ s.types, t.1 = tid := by
  unfold Session.typeName
  rw [Option.isSome_map, List.find?_isSome]
  simp

/-- a change that leaves entities, types, components and attachments alone preserves the invariant -/
theorem Session.DataOK_congr {s t : Session} (h : s.DataOK) (he : t.ents = s.ents) (hec : t.eidCur = s.eidCur)
    (ht : t.types = s.types) (htc : t.tidCur = s.tidCur) (hc : t.comps = s.comps) (ha : t.actions = s.actions)
    (hs : t.assets = s.assets) (hac : t.assetCur = s.assetCur) : t.DataOK := by
  have hf : ∀ x, t.findEnt x = s.findEnt x := by intro x; unfold Session.findEnt; rw [he]
  have hn : ∀ x, t.typeName x = s.typeName x := by intro x; unfold Session.typeName; rw [ht]
  constructor
  · rw [he]; exact h.eids_nodup
  · rw [he, hec]; exact h.eid_range
  · rw [ht]; exact h.tids_nodup
  · rw [ht]; exact h.names_nodup
  · rw [ht, htc]; exact h.tid_range
  · rw [hc]; exact h.comp_keys
  · rw [hc]; intro c hc'; rw [hf]; exact h.comp_ent c hc'
  · rw [hc]; intro c hc'; rw [hn]; exact h.comp_type c hc'
  · rw [ha]; intro a ha'; rw [hf]; exact h.act_ent a ha'
  · rw [ha]; exact h.act_keys
  · rw [hs]; intro a ha'; rw [hf]; exact h.asset_ent a ha'
  · rw [hs]; exact h.asset_eids
  · rw [hs]; exact h.asset_ids
  · rw [hs, hac]; exact h.asset_range

/-! ### entities -/

theorem Session.DataOK_addEntity {s : Session} (h : s.DataOK) (e : Entity) (hid : e.id = s.eidCur + 1) :
    ({ s with eidCur := s.eidCur + 1, ents := s.ents ++ [e] } : Session).DataOK := by
  have hmono : ∀ x, (s.findEnt x).isSome = true →
      (({ s with eidCur := s.eidCur + 1, ents := s.ents ++ [e] } : Session).findEnt x).isSome = true := by
    intro x hx
    rw [findEnt_isSome_iff] at hx ⊢
    obtain ⟨y, hy, hyx⟩ := hx
    exact ⟨y, List.mem_append_left _ hy, hyx⟩
  constructor
  · simp only [List.map_append, List.map_cons, List.map_nil]
    rw [List.nodup_append]
    refine ⟨h.eids_nodup, by simp, ?_⟩
    intro a ha b hb
    simp only [List.mem_singleton] at hb
    obtain ⟨y, hy, rfl⟩ := List.mem_map.mp ha
    have := (h.eid_range y hy).2
    omega
  · intro x hx
    simp only [List.mem_append, List.mem_singleton] at hx
    rcases hx with hx | rfl
    · have := h.eid_range x hx; exact ⟨this.1, by simp only []; omega⟩
    · simp only []; omega
  · exact h.tids_nodup
  · exact h.names_nodup
  · exact h.tid_range
  · exact h.comp_keys
  · intro c hc; exact hmono _ (h.comp_ent c hc)
  · exact h.comp_type
  · intro a ha; exact hmono _ (h.act_ent a ha)
  · exact h.act_keys
  · intro a ha; exact hmono _ (h.asset_ent a ha)
  · exact h.asset_eids
  · exact h.asset_ids
  · exact h.asset_range

/-- re-posing entities keeps ids -/
theorem Session.DataOK_mapEnts {s : Session} (h : s.DataOK) (f : Entity → Entity) (hf : ∀ e, (f e).id = e.id) :
    ({ s with ents := s.ents.map f } : Session).DataOK := by
  have hids : (s.ents.map f).map (·.id) = s.ents.map (·.id) := by
    simp only [List.map_map]; apply List.map_congr_left; intro e _; exact hf e
  have hfind : ∀ x, (({ s with ents := s.ents.map f } : Session).findEnt x).isSome = (s.findEnt x).isSome := by
    intro x
    have h1 := findEnt_isSome_iff ({ s with ents := s.ents.map f } : Session) x
    have h2 := findEnt_isSome_iff s x
    have : (∃ e ∈ s.ents.map f, e.id = x) ↔ ∃ e ∈ s.ents, e.id = x := by
      constructor
      · rintro ⟨e, he, rfl⟩
        obtain ⟨y, hy, rfl⟩ := List.mem_map.mp he
        exact ⟨y, hy, (hf y).symm⟩
      · rintro ⟨e, he, rfl⟩
        exact ⟨f e, List.mem_map_of_mem he, hf e⟩
    rw [Bool.eq_iff_iff, h1, h2, this]
  constructor
  · simp only []; rw [hids]; exact h.eids_nodup
  · intro e he
    obtain ⟨y, hy, rfl⟩ := List.mem_map.mp he
    rw [hf y]; exact h.eid_range y hy
  · exact h.tids_nodup
  · exact h.names_nodup
  · exact h.tid_range
  · exact h.comp_keys
  · intro c hc; rw [hfind]; exact h.comp_ent c hc
  · exact h.comp_type
  · intro a ha; rw [hfind]; exact h.act_ent a ha
  · exact h.act_keys
  · intro a ha; rw [hfind]; exact h.asset_ent a ha
  · exact h.asset_eids
  · exact h.asset_ids
  · exact h.asset_range

/-- removing a set of entities together with everything attached to them -/
theorem Session.DataOK_removeEnts {s : Session} (h : s.DataOK) (dead : Nat → Bool) (keepActs keepAssets : Bool)
    (hacts : keepActs = true → ∀ a ∈ s.actions, dead a.eid = false)
    (hassets : keepAssets = true → ∀ a ∈ s.assets, dead a.eid = false) :
    ({ s with ents := s.ents.filter (fun e => !dead e.id), comps := s.comps.filter (fun c => !dead c.eid),
              actions := if keepActs then s.actions else s.actions.filter (fun a => !dead a.eid),
              assets := if keepAssets then s.assets else s.assets.filter (fun a => !dead a.eid) } : Session).DataOK := by
  have hfind : ∀ x, dead x = false → (s.findEnt x).isSome = true →
      (({ s with ents := s.ents.filter (fun e => !dead e.id) } : Session).findEnt x).isSome = true := by
    intro x hd hx
    rw [findEnt_isSome_iff] at hx ⊢
    obtain ⟨y, hy, rfl⟩ := hx
    exact ⟨y, List.mem_filter.mpr ⟨hy, by simp [hd]⟩, rfl⟩
  have hfind' : ∀ (t : Session), t.ents = s.ents.filter (fun e => !dead e.id) → ∀ x, dead x = false → (s.findEnt x).isSome = true →
      (t.findEnt x).isSome = true := by
    intro t ht x hd hx
    have := hfind x hd hx
    unfold Session.findEnt at this ⊢
    rw [ht]; exact this
  constructor
  · exact (List.Sublist.map _ List.filter_sublist).nodup h.eids_nodup
  · intro e he; exact h.eid_range e (List.mem_filter.mp he).1
  · exact h.tids_nodup
  · exact h.names_nodup
  · exact h.tid_range
  · exact (List.Sublist.map _ List.filter_sublist).nodup h.comp_keys
  · intro c hc
    have hc' := List.mem_filter.mp hc
    exact hfind' _ rfl _ (by simpa using hc'.2) (h.comp_ent c hc'.1)
  · intro c hc; exact h.comp_type c (List.mem_filter.mp hc).1
  · intro a ha
    simp only [] at ha
    split at ha
    · rename_i hk; exact hfind' _ rfl _ (hacts hk a ha) (h.act_ent a ha)
    · have ha' := List.mem_filter.mp ha
      exact hfind' _ rfl _ (by simpa using ha'.2) (h.act_ent a ha'.1)
  · simp only []
    split
    · exact h.act_keys
    · exact (List.Sublist.map _ List.filter_sublist).nodup h.act_keys
  · intro a ha
    simp only [] at ha
    split at ha
    · rename_i hk; exact hfind' _ rfl _ (hassets hk a ha) (h.asset_ent a ha)
    · have ha' := List.mem_filter.mp ha
      exact hfind' _ rfl _ (by simpa using ha'.2) (h.asset_ent a ha'.1)
  · simp only []
    split
    · exact h.asset_eids
    · exact (List.Sublist.map _ List.filter_sublist).nodup h.asset_eids
  · simp only []
    split
    · exact h.asset_ids
    · exact (List.Sublist.map _ List.filter_sublist).nodup h.asset_ids
  · intro a ha
    simp only [] at ha
    split at ha
    · exact h.asset_range a ha
    · exact h.asset_range a (List.mem_filter.mp ha).1

/-- removing entities (those failing `keepE`) together with everything attached to the ids marked `dead` -/
theorem Session.DataOK_removeEnts' {s : Session} (h : s.DataOK) (keepE : Entity → Bool) (dead : Nat → Bool) (keepActs keepAssets : Bool)
    (hkeep : ∀ e ∈ s.ents, dead e.id = false → keepE e = true)
    (hacts : keepActs = true → ∀ a ∈ s.actions, dead a.eid = false)
    (hassets : keepAssets = true → ∀ a ∈ s.assets, dead a.eid = false) :
    ({ s with ents := s.ents.filter keepE, comps := s.comps.filter (fun c => !dead c.eid),
              actions := if keepActs then s.actions else s.actions.filter (fun a => !dead a.eid),
              assets := if keepAssets then s.assets else s.assets.filter (fun a => !dead a.eid) } : Session).DataOK := by
  have hfind : ∀ x, dead x = false → (s.findEnt x).isSome = true →
      (({ s with ents := s.ents.filter keepE } : Session).findEnt x).isSome = true := by
    intro x hd hx
    rw [findEnt_isSome_iff] at hx ⊢
    obtain ⟨y, hy, rfl⟩ := hx
    exact ⟨y, List.mem_filter.mpr ⟨hy, hkeep y hy hd⟩, rfl⟩
  have hfind' : ∀ (t : Session), t.ents = s.ents.filter keepE → ∀ x, dead x = false → (s.findEnt x).isSome = true →
      (t.findEnt x).isSome = true := by
    intro t ht x hd hx
    have := hfind x hd hx
    unfold Session.findEnt at this ⊢
    rw [ht]; exact this
  constructor
  · exact (List.Sublist.map _ List.filter_sublist).nodup h.eids_nodup
  · intro e he; exact h.eid_range e (List.mem_filter.mp he).1
  · exact h.tids_nodup
  · exact h.names_nodup
  · exact h.tid_range
  · exact (List.Sublist.map _ List.filter_sublist).nodup h.comp_keys
  · intro c hc
    have hc' := List.mem_filter.mp hc
    exact hfind' _ rfl _ (by simpa using hc'.2) (h.comp_ent c hc'.1)
  · intro c hc; exact h.comp_type c (List.mem_filter.mp hc).1
  · intro a ha
    simp only [] at ha
    split at ha
    · rename_i hk; exact hfind' _ rfl _ (hacts hk a ha) (h.act_ent a ha)
    · have ha' := List.mem_filter.mp ha
      exact hfind' _ rfl _ (by simpa using ha'.2) (h.act_ent a ha'.1)
  · simp only []
    split
    · exact h.act_keys
    · exact (List.Sublist.map _ List.filter_sublist).nodup h.act_keys
  · intro a ha
    simp only [] at ha
    split at ha
    · rename_i hk; exact hfind' _ rfl _ (hassets hk a ha) (h.asset_ent a ha)
    · have ha' := List.mem_filter.mp ha
      exact hfind' _ rfl _ (by simpa using ha'.2) (h.asset_ent a ha'.1)
  · simp only []
    split
    · exact h.asset_eids
    · exact (List.Sublist.map _ List.filter_sublist).nodup h.asset_eids
  · simp only []
    split
    · exact h.asset_ids
    · exact (List.Sublist.map _ List.filter_sublist).nodup h.asset_ids
  · intro a ha
    simp only [] at ha
    split at ha
    · exact h.asset_range a ha
    · exact h.asset_range a (List.mem_filter.mp ha).1

end Hagall

namespace Hagall

/-! ### types, components, attachments -/

theorem Session.DataOK_addType {s : Session} (h : s.DataOK) (name : String) (hnew : s.typeId name = none) :
    ({ s with tidCur := s.tidCur + 1, types := s.types ++ [(s.tidCur + 1, name)] } : Session).DataOK := by
  have hname : ∀ t ∈ s.types, t.2 ≠ name := by
    intro t ht heq
    unfold Session.typeId at hnew
    rw [Option.map_eq_none_iff, List.find?_eq_none] at hnew
    exact hnew t ht (by simpa using heq)
  have hmono : ∀ x, (s.typeName x).isSome = true →
      (({ s with tidCur := s.tidCur + 1, types := s.types ++ [(s.tidCur + 1, name)] } : Session).typeName x).isSome = true := by
    intro x hx
    rw [typeName_isSome_iff] at hx ⊢
    obtain ⟨y, hy, hyx⟩ := hx
    exact ⟨y, List.mem_append_left _ hy, hyx⟩
  constructor
  · exact h.eids_nodup
  · exact h.eid_range
  · simp only [List.map_append, List.map_cons, List.map_nil]
    rw [List.nodup_append]
    refine ⟨h.tids_nodup, by simp, ?_⟩
    intro a ha b hb
    simp only [List.mem_singleton] at hb
    obtain ⟨y, hy, rfl⟩ := List.mem_map.mp ha
    have := (h.tid_range y hy).2
    omega
  · simp only [List.map_append, List.map_cons, List.map_nil]
    rw [List.nodup_append]
    refine ⟨h.names_nodup, by simp, ?_⟩
    intro a ha b hb
    simp only [List.mem_singleton] at hb
    obtain ⟨y, hy, rfl⟩ := List.mem_map.mp ha
    rw [hb]; exact hname y hy
  · intro t ht
    simp only [List.mem_append, List.mem_singleton] at ht
    rcases ht with ht | rfl
    · have := h.tid_range t ht; exact ⟨this.1, by simp only []; omega⟩
    · simp only []; omega
  · exact h.comp_keys
  · exact h.comp_ent
  · intro c hc; exact hmono _ (h.comp_type c hc)
  · exact h.act_ent
  · exact h.act_keys
  · exact h.asset_ent
  · exact h.asset_eids
  · exact h.asset_ids
  · exact h.asset_range

theorem Session.DataOK_addComp {s : Session} (h : s.DataOK) (c : Comp) (he : (s.findEnt c.eid).isSome)
    (ht : (s.typeName c.tid).isSome) (hfree : (s.findComp c.tid c.eid).isSome = false) :
    ({ s with comps := s.comps ++ [c] } : Session).DataOK := by
  constructor
  · exact h.eids_nodup
  · exact h.eid_range
  · exact h.tids_nodup
  · exact h.names_nodup
  · exact h.tid_range
  · simp only [List.map_append, List.map_cons, List.map_nil]
    rw [List.nodup_append]
    refine ⟨h.comp_keys, by simp, ?_⟩
    intro a ha b hb
    simp only [List.mem_singleton] at hb
    obtain ⟨y, hy, rfl⟩ := List.mem_map.mp ha
    intro heq
    rw [hb] at heq
    simp only [Prod.mk.injEq] at heq
    unfold Session.findComp at hfree
    have : (s.comps.find? fun x => x.tid == c.tid && x.eid == c.eid).isSome = true := by
      rw [List.find?_isSome]; exact ⟨y, hy, by simp [heq.1, heq.2]⟩
    rw [this] at hfree; cases hfree
  · intro x hx
    simp only [List.mem_append, List.mem_singleton] at hx
    rcases hx with hx | rfl
    · exact h.comp_ent x hx
    · exact he
  · intro x hx
    simp only [List.mem_append, List.mem_singleton] at hx
    rcases hx with hx | rfl
    · exact h.comp_type x hx
    · exact ht
  · exact h.act_ent
  · exact h.act_keys
  · exact h.asset_ent
  · exact h.asset_eids
  · exact h.asset_ids
  · exact h.asset_range

theorem Session.DataOK_filterComps {s : Session} (h : s.DataOK) (f : Comp → Bool) :
    ({ s with comps := s.comps.filter f } : Session).DataOK := by
  constructor
  · exact h.eids_nodup
  · exact h.eid_range
  · exact h.tids_nodup
  · exact h.names_nodup
  · exact h.tid_range
  · exact (List.Sublist.map _ List.filter_sublist).nodup h.comp_keys
  · intro c hc; exact h.comp_ent c (List.mem_filter.mp hc).1
  · intro c hc; exact h.comp_type c (List.mem_filter.mp hc).1
  · exact h.act_ent
  · exact h.act_keys
  · exact h.asset_ent
  · exact h.asset_eids
  · exact h.asset_ids
  · exact h.asset_range

/-- replacing the data of the component under a key -/
theorem Session.DataOK_updComp {s : Session} (h : s.DataOK) (tid eid : Nat) (data : Bytes) :
    ({ s with comps := s.comps.map fun x => if x.tid == tid && x.eid == eid then ⟨tid, eid, data⟩ else x } : Session).DataOK := by
  have hkeys : (s.comps.map fun x => if x.tid == tid && x.eid == eid then (⟨tid, eid, data⟩ : Comp) else x).map (fun c => (c.tid, c.eid))
      = s.comps.map fun c => (c.tid, c.eid) := by
    simp only [List.map_map]
    apply List.map_congr_left
    intro x _
    simp only [Function.comp]
    split
    · rename_i hk; simp only [Bool.and_eq_true, beq_iff_eq] at hk; simp [hk.1, hk.2]
    · rfl
  have hmem : ∀ c ∈ (s.comps.map fun x => if x.tid == tid && x.eid == eid then (⟨tid, eid, data⟩ : Comp) else x),
      ∃ y ∈ s.comps, y.tid = c.tid ∧ y.eid = c.eid := by
    intro c hc
    obtain ⟨y, hy, rfl⟩ := List.mem_map.mp hc
    refine ⟨y, hy, ?_⟩
    split
    · rename_i hk; simp only [Bool.and_eq_true, beq_iff_eq] at hk; exact ⟨hk.1, hk.2⟩
    · exact ⟨rfl, rfl⟩
  constructor
  · exact h.eids_nodup
  · exact h.eid_range
  · exact h.tids_nodup
  · exact h.names_nodup
  · exact h.tid_range
  · simp only []; rw [hkeys]; exact h.comp_keys
  · intro c hc
    obtain ⟨y, hy, _, h2⟩ := hmem c hc
    rw [← h2]; exact h.comp_ent y hy
  · intro c hc
    obtain ⟨y, hy, h1, _⟩ := hmem c hc
    rw [← h1]; exact h.comp_type y hy
  · exact h.act_ent
  · exact h.act_keys
  · exact h.asset_ent
  · exact h.asset_eids
  · exact h.asset_ids
  · exact h.asset_range

theorem Session.DataOK_setAction {s : Session} (h : s.DataOK) (a : Action) (he : (s.findEnt a.eid).isSome) :
    (s.setAction a).DataOK := by
  unfold Session.setAction
  split
  · -- replace in place: keys unchanged
    have hkeys : (s.actions.map fun x => if x.eid == a.eid && x.name == a.name then a else x).map (fun x => (x.eid, x.name))
        = s.actions.map fun x => (x.eid, x.name) := by
      simp only [List.map_map]
      apply List.map_congr_left
      intro x _
      simp only [Function.comp]
      split
      · rename_i hk; simp only [Bool.and_eq_true, beq_iff_eq] at hk; simp [hk.1, hk.2]
      · rfl
    constructor
    · exact h.eids_nodup
    · exact h.eid_range
    · exact h.tids_nodup
    · exact h.names_nodup
    · exact h.tid_range
    · exact h.comp_keys
    · exact h.comp_ent
    · exact h.comp_type
    · intro x hx
      obtain ⟨y, hy, rfl⟩ := List.mem_map.mp hx
      split
      · exact he
      · exact h.act_ent y hy
    · simp only []; rw [hkeys]; exact h.act_keys
    · exact h.asset_ent
    · exact h.asset_eids
    · exact h.asset_ids
    · exact h.asset_range
  · rename_i hany
    constructor
    · exact h.eids_nodup
    · exact h.eid_range
    · exact h.tids_nodup
    · exact h.names_nodup
    · exact h.tid_range
    · exact h.comp_keys
    · exact h.comp_ent
    · exact h.comp_type
    · intro x hx
      simp only [List.mem_append, List.mem_singleton] at hx
      rcases hx with hx | rfl
      · exact h.act_ent x hx
      · exact he
    · simp only [List.map_append, List.map_cons, List.map_nil]
      rw [List.nodup_append]
      refine ⟨h.act_keys, by simp, ?_⟩
      intro k hk b hb
      simp only [List.mem_singleton] at hb
      obtain ⟨y, hy, rfl⟩ := List.mem_map.mp hk
      intro heq
      rw [hb] at heq
      simp only [Prod.mk.injEq] at heq
      apply hany
      simp only [List.any_eq_true, Bool.and_eq_true, beq_iff_eq]
      exact ⟨y, hy, heq.1, heq.2⟩
    · exact h.asset_ent
    · exact h.asset_eids
    · exact h.asset_ids
    · exact h.asset_range

theorem replace_ids_nodup (l : List Asset) (eid : Nat) (a : Asset) (ha : a.eid = eid) (hfresh : ∀ y ∈ l, y.id ≠ a.id)
    (hne : (l.map (·.eid)).Nodup) (hni : (l.map (·.id)).Nodup) :
    ((l.map fun x => if x.eid == eid then a else x).map (·.id)).Nodup := by
  induction l with
  | nil => simp
  | cons z zs ih =>
    simp only [List.map_cons, List.nodup_cons, List.mem_map, not_exists, not_and] at hne hni ⊢
    have ih' := ih (fun y hy => hfresh y (List.mem_cons_of_mem _ hy)) hne.2 hni.2
    refine ⟨?_, ih'⟩
    rintro _ ⟨y, hy, rfl⟩
    by_cases hz : (z.eid == eid) = true
    · rw [if_pos hz]
      have hze : z.eid = eid := by simpa using hz
      have hye : y.eid ≠ eid := fun h' => hne.1 y hy (by rw [h', hze])
      have : (y.eid == eid) = false := by simpa using hye
      rw [this]; simp only [Bool.false_eq_true, if_false]
      exact hfresh y (List.mem_cons_of_mem _ hy)
    · rw [if_neg hz]
      by_cases hyk : (y.eid == eid) = true
      · rw [if_pos hyk]
        exact fun h' => hfresh z (List.mem_cons_self ..) h'.symm
      · rw [if_neg hyk]; exact hni.1 y hy

theorem Session.DataOK_setAsset {s : Session} (h : s.DataOK) (assetId : String) (pid eid : Nat) (he : (s.findEnt eid).isSome) :
    (({ s with assetCur := s.assetCur + 1 } : Session).setAsset ⟨s.assetCur + 1, assetId, pid, eid⟩).DataOK := by
  unfold Session.setAsset
  simp only []
  split
  · have heids : (s.assets.map fun x => if x.eid == eid then (⟨s.assetCur + 1, assetId, pid, eid⟩ : Asset) else x).map (·.eid)
        = s.assets.map (·.eid) := by
      simp only [List.map_map]
      apply List.map_congr_left
      intro x _
      simp only [Function.comp]
      split
      · rename_i hk; simp only [beq_iff_eq] at hk; simp [hk]
      · rfl
    constructor
    · exact h.eids_nodup
    · exact h.eid_range
    · exact h.tids_nodup
    · exact h.names_nodup
    · exact h.tid_range
    · exact h.comp_keys
    · exact h.comp_ent
    · exact h.comp_type
    · exact h.act_ent
    · exact h.act_keys
    · intro x hx
      obtain ⟨y, hy, rfl⟩ := List.mem_map.mp hx
      split
      · exact he
      · exact h.asset_ent y hy
    · simp only []; rw [heids]; exact h.asset_eids
    · -- ids: at most one element is replaced (entity ids are distinct), by a fresh id
      simp only []
      apply replace_ids_nodup s.assets eid _ rfl _ h.asset_eids h.asset_ids
      intro y hy; have := (h.asset_range y hy).2; simp only []; omega
    · intro x hx
      obtain ⟨y, hy, rfl⟩ := List.mem_map.mp hx
      split
      · simp only []; omega
      · have := h.asset_range y hy; exact ⟨this.1, by simp only []; omega⟩
  · rename_i hany
    constructor
    · exact h.eids_nodup
    · exact h.eid_range
    · exact h.tids_nodup
    · exact h.names_nodup
    · exact h.tid_range
    · exact h.comp_keys
    · exact h.comp_ent
    · exact h.comp_type
    · exact h.act_ent
    · exact h.act_keys
    · intro x hx
      simp only [List.mem_append, List.mem_singleton] at hx
      rcases hx with hx | rfl
      · exact h.asset_ent x hx
      · exact he
    · simp only [List.map_append, List.map_cons, List.map_nil]
      rw [List.nodup_append]
      refine ⟨h.asset_eids, by simp, ?_⟩
      intro k hk b hb
      simp only [List.mem_singleton] at hb
      obtain ⟨y, hy, rfl⟩ := List.mem_map.mp hk
      intro heq
      apply hany
      simp only [List.any_eq_true, beq_iff_eq]
      exact ⟨y, hy, by rw [heq, hb]⟩
    · simp only [List.map_append, List.map_cons, List.map_nil]
      rw [List.nodup_append]
      refine ⟨h.asset_ids, by simp, ?_⟩
      intro k hk b hb
      simp only [List.mem_singleton] at hb
      obtain ⟨y, hy, rfl⟩ := List.mem_map.mp hk
      have := (h.asset_range y hy).2
      omega
    · intro x hx
      simp only [List.mem_append, List.mem_singleton] at hx
      rcases hx with hx | rfl
      · have := h.asset_range x hx; exact ⟨this.1, by simp only []; omega⟩
      · simp only []; omega

end Hagall

namespace Hagall

/-! ### every request preserves the data invariant -/

/-- the invariant of a session under a given module configuration: a module that is not loaded holds
    no state -/
def Req.isEntityDelete : Req → Bool
  | .entityDelete .. => true
  | _ => false

def Session.Inv (cfg : Cfg) (s : Session) : Prop :=
  s.DataOK ∧ (cfg.vikja = false → s.actions = []) ∧ (cfg.odal = false → s.assets = [])

theorem Session.DataOK_filterActions {s : Session} (h : s.DataOK) (f : Action → Bool) :
    ({ s with actions := s.actions.filter f } : Session).DataOK := by
  constructor
  · exact h.eids_nodup
  · exact h.eid_range
  · exact h.tids_nodup
  · exact h.names_nodup
  · exact h.tid_range
  · exact h.comp_keys
  · exact h.comp_ent
  · exact h.comp_type
  · intro a ha; exact h.act_ent a (List.mem_filter.mp ha).1
  · exact (List.Sublist.map _ List.filter_sublist).nodup h.act_keys
  · exact h.asset_ent
  · exact h.asset_eids
  · exact h.asset_ids
  · exact h.asset_range

theorem Session.DataOK_filterAssets {s : Session} (h : s.DataOK) (f : Asset → Bool) :
    ({ s with assets := s.assets.filter f } : Session).DataOK := by
  constructor
  · exact h.eids_nodup
  · exact h.eid_range
  · exact h.tids_nodup
  · exact h.names_nodup
  · exact h.tid_range
  · exact h.comp_keys
  · exact h.comp_ent
  · exact h.comp_type
  · exact h.act_ent
  · exact h.act_keys
  · intro a ha; exact h.asset_ent a (List.mem_filter.mp ha).1
  · exact (List.Sublist.map _ List.filter_sublist).nodup h.asset_eids
  · exact (List.Sublist.map _ List.filter_sublist).nodup h.asset_ids
  · intro a ha; exact h.asset_range a (List.mem_filter.mp ha).1

/-- the core handlers other than entity delete keep the whole invariant -/
theorem Session.core_Inv (cfg : Cfg) {s : Session} (h : s.Inv cfg) (p : Part) (r : Req) (hint : Nat)
    (hnd : r.isEntityDelete = false) : (s.core cfg p r hint).1.Inv cfg := by
  obtain ⟨hd, hv, ho⟩ := h
  have same : ∀ t : Session, t.ents = s.ents → t.eidCur = s.eidCur → t.types = s.types → t.tidCur = s.tidCur →
      t.comps = s.comps → t.actions = s.actions → t.assets = s.assets → t.assetCur = s.assetCur → t.Inv cfg := by
    intro t h1 h2 h3 h4 h5 h6 h7 h8
    exact ⟨Session.DataOK_congr hd h1 h2 h3 h4 h5 h6 h7 h8, by rw [h6]; exact hv, by rw [h7]; exact ho⟩
  unfold Session.core
  cases r <;> simp only [Req.isEntityDelete] at hnd ⊢ <;> (try (cases hnd)) <;> (try unfold_core)
  case entityAdd rid ots persist flag pose =>
    exact ⟨Session.DataOK_addEntity hd _ rfl, hv, ho⟩
  case updatePose ots eid pose =>
    (repeat' split) <;> (try exact ⟨hd, hv, ho⟩)
    exact ⟨Session.DataOK_mapEnts hd _ (by intro e; split <;> rfl), hv, ho⟩
  case typeAdd rid name =>
    (repeat' split) <;> (try exact ⟨hd, hv, ho⟩)
    rename_i hnone
    exact ⟨Session.DataOK_addType hd name hnone, hv, ho⟩
  case compAdd rid ots tid eid data =>
    by_cases h0 : (tid == 0 || eid == 0) = true
    · simp only [h0, if_true]; exact ⟨hd, hv, ho⟩
    · simp only [h0, if_false, Bool.false_eq_true]
      cases he : s.findEnt eid with
      | none => exact ⟨hd, hv, ho⟩
      | some e =>
        simp only []
        by_cases hty : (s.typeName tid).isNone = true
        · simp only [hty, if_true]; exact ⟨hd, hv, ho⟩
        · simp only [hty, if_false, Bool.false_eq_true]
          by_cases hfree : (s.findComp tid e.id).isSome = true
          · simp only [hfree, if_true]; exact ⟨hd, hv, ho⟩
          · simp only [hfree, if_false, Bool.false_eq_true]
            have he' : (s.findEnt e.id).isSome = true := by
              rw [findEnt_isSome_iff]; exact ⟨e, (findEnt_some_mem he).1, rfl⟩
            refine ⟨Session.DataOK_addComp hd ⟨tid, e.id, data⟩ he' ?_ ?_, hv, ho⟩
            · cases hx : s.typeName tid <;> simp_all
            · cases hx : (s.findComp tid e.id).isSome <;> simp_all
  case compDelete rid ots tid eid =>
    by_cases h0 : (tid == 0 || eid == 0) = true
    · simp only [h0, if_true]; exact ⟨hd, hv, ho⟩
    · simp only [h0, if_false, Bool.false_eq_true]
      cases he : s.findEnt eid with
      | none => exact ⟨hd, hv, ho⟩
      | some e =>
        simp only []
        by_cases hpres : (s.findComp tid e.id).isNone = true
        · simp only [hpres, if_true]; exact ⟨hd, hv, ho⟩
        · simp only [hpres, if_false, Bool.false_eq_true]
          exact ⟨Session.DataOK_filterComps hd _, hv, ho⟩
  case compUpdate ots tid eid data =>
    by_cases h0 : (tid == 0 || eid == 0) = true
    · simp only [h0, if_true]; exact ⟨hd, hv, ho⟩
    · simp only [h0, if_false, Bool.false_eq_true]
      cases he : s.findEnt eid with
      | none => exact ⟨hd, hv, ho⟩
      | some e =>
        simp only []
        by_cases hpres : (s.findComp tid e.id).isNone = true
        · simp only [hpres, if_true]; exact ⟨hd, hv, ho⟩
        · simp only [hpres, if_false, Bool.false_eq_true]
          exact ⟨Session.DataOK_updComp hd tid _ data, hv, ho⟩
  all_goals ((repeat' split) <;> (first | exact ⟨hd, hv, ho⟩ | (apply same <;> rfl)))

end Hagall

namespace Hagall

theorem Res.andThen_pred (P : Session → Prop) {r : Res} {f : Session → Res} (h1 : P r.1)
    (h2 : ∀ t : Session, P t → P (f t).1) : P (Res.andThen r f).1 := by
  obtain ⟨t, ds, o⟩ := r
  cases o
  · rw [Res.andThen_ok]; exact h2 t h1
  · exact h1
  · exact h1

/-- a predicate kept by every *loaded* module's handler is kept by the module pass -/
theorem Session.modules_pred (P : Session → Prop) (cfg : Cfg) (p : Part) (r : Req)
    (hv : cfg.vikja = true → ∀ t : Session, P t → P (t.vikja p r).1)
    (ho : cfg.odal = true → ∀ t : Session, P t → P (t.odal p r).1)
    (hd : cfg.dagaz = true → ∀ t : Session, P t → P (t.dagaz p r).1) (s : Session) (hs : P s) :
    P (s.modules cfg p r).1 := by
  unfold Session.modules
  apply Res.andThen_pred P
  · apply Res.andThen_pred P
    · apply Res.andThen_pred P
      · exact hs
      · intro t ht; split
        · rename_i h; exact hv h t ht
        · exact ht
    · intro t ht; split
      · rename_i h; exact ho h t ht
      · exact ht
  · intro t ht; split
    · rename_i h; exact hd h t ht
    · exact ht

theorem actionOk_entity {s : Session} {a : Action} (h : s.actionOk a = true) : (s.findEnt a.eid).isSome = true := by
  unfold Session.actionOk at h
  simp only [Bool.and_eq_true] at h
  exact h.1.2

theorem Session.vikja_Inv (cfg : Cfg) (hcv : cfg.vikja = true) (p : Part) (r : Req)
    (hnd : r.isEntityDelete = false) (t : Session) (h : t.Inv cfg) : (t.vikja p r).1.Inv cfg := by
  obtain ⟨hd, hv, ho⟩ := h
  unfold Session.vikja
  cases r <;> simp only [Req.isEntityDelete] at hnd ⊢ <;> (try (cases hnd)) <;> (try exact ⟨hd, hv, ho⟩)
  case action rid ots act =>
    cases act with
    | none => exact ⟨hd, hv, ho⟩
    | some a =>
      simp only []
      split
      · rename_i hok
        refine ⟨Session.DataOK_setAction hd a (actionOk_entity hok), (fun h => by rw [hcv] at h; cases h), ?_⟩
        intro h; rw [show (t.setAction a).assets = t.assets from by unfold Session.setAction; split <;> rfl]; exact ho h
      · exact ⟨hd, hv, ho⟩

theorem Session.odal_Inv (cfg : Cfg) (hco : cfg.odal = true) (p : Part) (r : Req)
    (hnd : r.isEntityDelete = false) (t : Session) (h : t.Inv cfg) : (t.odal p r).1.Inv cfg := by
  obtain ⟨hd, hv, ho⟩ := h
  unfold Session.odal
  cases r <;> simp only [Req.isEntityDelete] at hnd ⊢ <;> (try (cases hnd)) <;> (try exact ⟨hd, hv, ho⟩)
  case assetAdd rid ots assetId eid =>
    split
    · exact ⟨hd, hv, ho⟩
    · cases he : t.findEnt eid with
      | none => exact ⟨hd, hv, ho⟩
      | some e =>
        simp only []
        split
        · exact ⟨hd, hv, ho⟩
        · have he' : (t.findEnt e.id).isSome = true := by
            rw [findEnt_isSome_iff]; exact ⟨e, (findEnt_some_mem he).1, rfl⟩
          refine ⟨Session.DataOK_setAsset hd assetId p.pid e.id he', ?_, (fun h => by rw [hco] at h; cases h)⟩
          intro h
          rw [show (Session.setAsset { t with assetCur := t.assetCur + 1 } ⟨t.assetCur + 1, assetId, p.pid, e.id⟩).actions = t.actions from by
            unfold Session.setAsset; split <;> rfl]
          exact hv h

theorem Session.dagaz_Inv (cfg : Cfg) (p : Part) (r : Req) (t : Session) (h : t.Inv cfg) : (t.dagaz p r).1.Inv cfg := by
  obtain ⟨hd, hv, ho⟩ := h
  unfold Session.dagaz
  cases r <;> simp only [] <;> (try exact ⟨hd, hv, ho⟩)
  case quadSample qs => exact ⟨Session.DataOK_congr hd rfl rfl rfl rfl rfl rfl rfl rfl, hv, ho⟩

theorem findEnt_with_actions (t : Session) (l : List Action) (x : Nat) :
    ({ t with actions := l } : Session).findEnt x = t.findEnt x := rfl
theorem findEnt_with_assets (t : Session) (l : List Asset) (x : Nat) :
    ({ t with assets := l } : Session).findEnt x = t.findEnt x := rfl

/-- the module pass on an entity-delete request when the entity is gone, in closed form -/
theorem Session.modules_entityDelete_gone (cfg : Cfg) (t : Session) (p : Part) (rid ots eid : Nat)
    (hgone : (t.findEnt eid).isNone = true) :
    (t.modules cfg p (.entityDelete rid ots eid)).1 =
      { t with actions := if cfg.vikja then t.actions.filter (·.eid != eid) else t.actions,
               assets := if cfg.odal then t.assets.filter (·.eid != eid) else t.assets } := by
  have hd : ∀ u : Session, (if cfg.dagaz = true then u.dagaz p (Req.entityDelete rid ots eid) else (u, [], Outcome.ok)) = (u, [], .ok) := by
    intro u; split <;> rfl
  unfold Session.modules
  by_cases hcv : cfg.vikja = true <;> by_cases hco : cfg.odal = true <;>
    simp only [hcv, hco, if_true, if_false, Bool.false_eq_true, Res.andThen_ok, Session.vikja, Session.odal, hgone,
      findEnt_with_actions, findEnt_with_assets, hd]

/-- the state after the whole `handleMessage` path of an entity-delete request keeps the invariant -/
theorem Session.handle_entityDelete_Inv (cfg : Cfg) {s : Session} (h : s.Inv cfg) (p : Part) (rid ots eid hint : Nat) :
    (s.handle cfg p (.entityDelete rid ots eid) hint).1.Inv cfg := by
  obtain ⟨hd, hv, ho⟩ := h
  -- the modules' delete hooks keep the invariant on any session (they only filter)
  have hvik : ∀ t : Session, t.Inv cfg → (t.vikja p (.entityDelete rid ots eid)).1.Inv cfg := by
    intro t ⟨h1, h2, h3⟩
    simp only [Session.vikja]
    split
    · exact ⟨Session.DataOK_filterActions h1 _, fun hh => by simp [h2 hh], h3⟩
    · exact ⟨h1, h2, h3⟩
  have hoda : ∀ t : Session, t.Inv cfg → (t.odal p (.entityDelete rid ots eid)).1.Inv cfg := by
    intro t ⟨h1, h2, h3⟩
    simp only [Session.odal]
    split
    · exact ⟨Session.DataOK_filterAssets h1 _, h2, fun hh => by simp [h3 hh]⟩
    · exact ⟨h1, h2, h3⟩
  unfold Session.handle
  simp only [Session.core, Session.entityDelete]
  cases he : s.findEnt eid with
  | none =>
    simp only [Res.andThen_ok]
    exact Session.modules_pred (Session.Inv cfg) cfg p _ (fun _ => hvik) (fun _ => hoda) (fun _ t ht => ht) s ⟨hd, hv, ho⟩
  | some e =>
    simp only []
    split
    · simp only [Res.andThen_ok]
      exact Session.modules_pred (Session.Inv cfg) cfg p _ (fun _ => hvik) (fun _ => hoda) (fun _ t ht => ht) s ⟨hd, hv, ho⟩
    · -- accepted: the entity and its components go in the core handler, its attachments in the modules
      simp only [Res.andThen_ok]
      have heid : e.id = eid := (findEnt_some_mem he).2
      have hgone : ((s.removeEntity e.id).findEnt eid).isNone = true := by
        unfold Session.findEnt
        rw [Option.isNone_iff_eq_none, List.find?_eq_none]
        intro x hx
        simp only [Session.removeEntity, List.mem_filter] at hx
        rw [← heid]; simpa using hx.2
      rw [Session.modules_entityDelete_gone cfg _ p rid ots eid hgone]
      have key := Session.DataOK_removeEnts hd (fun x => x == eid) (!cfg.vikja) (!cfg.odal)
        (by intro hk a ha; have := hv (by simpa using hk); rw [this] at ha; cases ha)
        (by intro hk a ha; have := ho (by simpa using hk); rw [this] at ha; cases ha)
      refine ⟨?_, ?_, ?_⟩
      · simp only [Session.removeEntity, heid, bne] at key ⊢
        cases hcv : cfg.vikja <;> cases hco : cfg.odal <;> simp only [hcv, hco, Bool.not_true, Bool.not_false, if_true, if_false, Bool.false_eq_true] at key ⊢ <;> exact key
      · intro hcv; simp only [hcv, Bool.false_eq_true, if_false, Session.removeEntity]; exact hv hcv
      · intro hco; simp only [hco, Bool.false_eq_true, if_false, Session.removeEntity]; exact ho hco

/-- **every request keeps the session invariant** -/
theorem Session.handle_Inv (cfg : Cfg) {s : Session} (h : s.Inv cfg) (p : Part) (r : Req) (hint : Nat) :
    (s.handle cfg p r hint).1.Inv cfg := by
  cases hnd : r.isEntityDelete
  case true =>
    cases r <;> simp only [Req.isEntityDelete] at hnd <;> try (cases hnd)
    exact Session.handle_entityDelete_Inv cfg h p _ _ _ hint
  case false =>
    unfold Session.handle
    apply Res.andThen_pred (Session.Inv cfg)
    · exact Session.core_Inv cfg h p r hint hnd
    · intro t ht
      exact Session.modules_pred (Session.Inv cfg) cfg p r
        (fun hc => Session.vikja_Inv cfg hc p r hnd) (fun hc => Session.odal_Inv cfg hc p r hnd)
        (fun _ => Session.dagaz_Inv cfg p r) t ht

end Hagall

namespace Hagall

/-- a departure keeps the session invariant -/
theorem Session.leave_Inv (cfg : Cfg) {s : Session} (h : s.Inv cfg) (pid : Nat) : (s.leave cfg pid).1.Inv cfg := by
  obtain ⟨hd, hv, ho⟩ := h
  have key := Session.DataOK_removeEnts' hd (fun e => !(e.owner == pid && !e.persist))
    (fun x => ((s.doomed pid).map (·.id)).contains x) (!cfg.vikja) (!cfg.odal)
    (by
      intro e he hdead
      -- an entity whose id is not among the doomed ids is not doomed
      cases hk : (e.owner == pid && !e.persist)
      · rfl
      · exfalso
        have : e.id ∈ (s.doomed pid).map (·.id) := List.mem_map.mpr ⟨e, List.mem_filter.mpr ⟨he, hk⟩, rfl⟩
        simp only [List.contains_eq_mem, decide_eq_false_iff_not] at hdead
        exact hdead this)
    (by intro hk a ha; have := hv (by simpa using hk); rw [this] at ha; cases ha)
    (by intro hk a ha; have := ho (by simpa using hk); rw [this] at ha; cases ha)
  refine ⟨?_, ?_, ?_⟩
  · have : (s.leave cfg pid).1.DataOK := by
      simp only [Session.leave]
      apply Session.DataOK_congr key <;> (try rfl)
      · cases hcv : cfg.vikja <;> simp
      · cases hco : cfg.odal <;> simp
    exact this
  · intro hcv; simp only [Session.leave, hcv, Bool.false_eq_true, if_false]; exact hv hcv
  · intro hco; simp only [Session.leave, hco, Bool.false_eq_true, if_false]; exact ho hco

theorem Session.addPart_Inv (cfg : Cfg) {s : Session} (h : s.Inv cfg) (c : Nat) : (s.addPart c).1.Inv cfg := by
  obtain ⟨hd, hv, ho⟩ := h
  exact ⟨Session.DataOK_congr hd rfl rfl rfl rfl rfl rfl rfl rfl, hv, ho⟩

theorem Session.Inv_fresh (cfg : Cfg) (id uuid : Nat) : ({ id, uuid } : Session).Inv cfg :=
  ⟨Session.DataOK_fresh id uuid, fun _ => rfl, fun _ => rfl⟩

/-- every registered session satisfies the session invariant -/
def Server.AllInv (cfg : Cfg) (srv : Server) : Prop := ∀ s ∈ srv.sessions, s.Inv cfg

theorem Server.AllInv_init (cfg : Cfg) : (({} : Server)).AllInv cfg := by
  intro s hs; simp at hs

theorem Server.setSession_AllInv (cfg : Cfg) {srv : Server} (h : srv.AllInv cfg) {s' : Session} (hs' : s'.Inv cfg) :
    (srv.setSession s').AllInv cfg := by
  intro x hx
  simp only [Server.setSession, List.mem_map] at hx
  obtain ⟨y, hy, rfl⟩ := hx
  split
  · exact hs'
  · exact h y hy

theorem Server.locate_mem {srv : Server} {c : Nat} {s : Session} {p : Part} (h : srv.locate c = some (s, p)) :
    s ∈ srv.sessions := by
  unfold Server.locate at h
  obtain ⟨x, hx, hf⟩ := List.exists_of_findSome?_eq_some h
  cases hp : x.parts.find? (·.conn == c) with
  | none => simp [hp] at hf
  | some q =>
    simp only [hp, Option.map_some, Option.some.injEq, Prod.mk.injEq] at hf
    rw [← hf.1]; exact hx

theorem Server.leave_AllInv (cfg : Cfg) {srv : Server} (h : srv.AllInv cfg) {s : Session} (p : Part) (hs : s ∈ srv.sessions) :
    (srv.leave cfg s p).1.AllInv cfg := by
  have := Session.leave_Inv cfg (h s hs) p.pid
  unfold Server.leave
  rcases hl : s.leave cfg p.pid with ⟨s', ds⟩
  rw [hl] at this
  simp only []
  split
  · intro x hx; exact h x (List.mem_filter.mp hx).1
  · exact Server.setSession_AllInv cfg h this

theorem Server.joinFresh_AllInv (cfg : Cfg) {srv : Server} (h : srv.AllInv cfg) (c rid ots : Nat) (t : JoinTarget) (hint : Nat) :
    (srv.joinFresh cfg c rid ots t hint).1.AllInv cfg := by
  unfold Server.joinFresh
  cases t with
  | bogus => exact h
  | id n =>
    simp only []
    cases hf : srv.findSession n with
    | none => exact h
    | some s =>
      have hs : s ∈ srv.sessions := by unfold Server.findSession at hf; exact List.mem_of_find?_eq_some hf
      exact Server.setSession_AllInv cfg h (Session.addPart_Inv cfg (h s hs) c)
  | new =>
    simp only []
    intro x hx
    rcases List.mem_append.mp hx with hx | hx
    · exact h x hx
    · simp only [List.mem_singleton] at hx; subst hx
      exact Session.addPart_Inv cfg (Session.Inv_fresh cfg _ _) c

theorem Server.join_AllInv (cfg : Cfg) {srv : Server} (h : srv.AllInv cfg) (c rid ots : Nat) (t : JoinTarget) (hint : Nat) :
    (srv.join cfg c rid ots t hint).1.AllInv cfg := by
  unfold Server.join
  cases hl : srv.locate c with
  | none => exact Server.joinFresh_AllInv cfg h c rid ots t hint
  | some sp =>
    obtain ⟨s, p⟩ := sp
    simp only []
    split
    · exact h
    · split
      · exact h
      · have h1 := Server.leave_AllInv cfg h p (Server.locate_mem hl)
        rcases hle : srv.leave cfg s p with ⟨srv', ds⟩
        rw [hle] at h1
        have := Server.joinFresh_AllInv cfg h1 c rid ots t hint
        rcases hj : srv'.joinFresh cfg c rid ots t hint with ⟨a, b, o⟩
        rw [hj] at this
        exact this

theorem Server.handleReq_AllInv (cfg : Cfg) {srv : Server} (h : srv.AllInv cfg) (c : Nat) (r : Req) (hint : Nat) :
    (srv.handleReq cfg c r hint).1.AllInv cfg := by
  unfold Server.handleReq
  split
  next => exact h
  next => exact Server.join_AllInv cfg h c _ _ _ hint
  next =>
    unfold Server.handleReceipt
    split
    · exact h
    · split <;> exact h
  next =>
    cases hl : srv.locate c with
    | none => simp only []; exact h
    | some sp =>
      obtain ⟨s, p⟩ := sp
      simp only []
      have := Session.handle_Inv cfg (h s (Server.locate_mem hl)) p r hint
      rcases hh : s.handle cfg p r hint with ⟨s', ds, o⟩
      rw [hh] at this
      exact Server.setSession_AllInv cfg h this

theorem Server.disconnect_AllInv (cfg : Cfg) {srv : Server} (h : srv.AllInv cfg) (c : Nat) : (srv.disconnect cfg c).1.AllInv cfg := by
  unfold Server.disconnect
  cases hl : srv.locate c with
  | none => exact h
  | some sp =>
    obtain ⟨s, p⟩ := sp
    have := Server.leave_AllInv cfg h p (Server.locate_mem hl)
    simp only []
    rcases hle : srv.leave cfg s p with ⟨srv', ds⟩
    rw [hle] at this
    exact this

theorem step_AllInv (cfg : Cfg) {srv : Server} (h : srv.AllInv cfg) (e : Event) : (step cfg srv e).1.AllInv cfg := by
  unfold step
  cases e with
  | connect c => simp only []; split <;> exact h
  | recv c r =>
    simp only []
    split
    · exact h
    · rename_i k _
      have hb : (srv.beforeDispatch k r).1.AllInv cfg := by
        unfold Server.beforeDispatch
        split <;> exact h
      split
      · exact hb
      · have := Server.disconnect_AllInv cfg hb c
        rcases hd : (srv.beforeDispatch k r).1.disconnect cfg c with ⟨a, b⟩
        rw [hd] at this; exact this
  | handle c pick hint =>
    simp only []
    split
    · exact h
    · split
      · exact h
      · rename_i k _ r k' _
        have h0 : (srv.setConn k').AllInv cfg := h
        have h1 := Server.handleReq_AllInv cfg h0 c r hint
        rcases hh : (srv.setConn k').handleReq cfg c r hint with ⟨srv', ds, o⟩
        rw [hh] at h1
        simp only []
        cases o with
        | ok => exact h1
        | connError =>
          have := Server.disconnect_AllInv cfg h1 c
          rcases hd : srv'.disconnect cfg c with ⟨a, b⟩
          rw [hd] at this; exact this
        | panic site => exact h1
  | tick sid => simp only []; split <;> exact h
  | disconnect c =>
    simp only []
    have := Server.disconnect_AllInv cfg h c
    rcases hd : srv.disconnect cfg c with ⟨a, b⟩
    rw [hd] at this; exact this
  | drain => exact h

/-- every session of every state reachable by any history satisfies the session invariant -/
theorem run_AllInv (cfg : Cfg) (h : List Event) {srv : Server} (hw : srv.AllInv cfg) : (run cfg srv h).1.AllInv cfg := by
  induction h generalizing srv with
  | nil => exact hw
  | cons e es ih =>
    simp only [run]
    have := step_AllInv cfg hw e
    rcases hs : step cfg srv e with ⟨srv', ds, o⟩
    rw [hs] at this
    have := ih this
    rcases hr : run cfg srv' es with ⟨a, b⟩
    rw [hr] at this
    exact this

end Hagall
