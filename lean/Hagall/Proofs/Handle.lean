/-
  Structural lemmas about `Res.andThen`, the module pass and `Session.handle`.
-/
import Hagall.Proofs.Basic
namespace Hagall

theorem Res.andThen_ok (s : Session) (ds : List Delivery) (f : Session → Res) :
    Res.andThen (s, ds, .ok) f = ((f s).1, ds ++ (f s).2.1, (f s).2.2) := by
  rcases h : f s with ⟨a, b, c⟩
  simp [Res.andThen, h]

theorem Res.andThen_connError (s : Session) (ds : List Delivery) (f : Session → Res) :
    Res.andThen (s, ds, .connError) f = (s, ds, .connError) := rfl

theorem Res.andThen_panic (s : Session) (ds : List Delivery) (x : String) (f : Session → Res) :
    Res.andThen (s, ds, .panic x) f = (s, ds, .panic x) := rfl

/-- if no loaded module reacts to the message, the module pass is the identity -/
theorem Session.modules_noop (cfg : Cfg) (s : Session) (p : Part) (r : Req)
    (hv : cfg.vikja = true → s.vikja p r = (s, [], .ok))
    (ho : cfg.odal = true → s.odal p r = (s, [], .ok))
    (hd : cfg.dagaz = true → s.dagaz p r = (s, [], .ok)) :
    s.modules cfg p r = (s, [], .ok) := by
  unfold Session.modules
  have h1 : (if cfg.vikja then s.vikja p r else (s, [], .ok)) = (s, [], .ok) := by
    split
    · rename_i h; exact hv h
    · rfl
  have h2 : (if cfg.odal then s.odal p r else (s, [], .ok)) = (s, [], .ok) := by
    split
    · rename_i h; exact ho h
    · rfl
  have h3 : (if cfg.dagaz then s.dagaz p r else (s, [], .ok)) = (s, [], .ok) := by
    split
    · rename_i h; exact hd h
    · rfl
  rw [Res.andThen_ok, h1]
  simp only [List.append_nil]
  rw [Res.andThen_ok, h2]
  simp only [List.append_nil]
  rw [Res.andThen_ok, h3]
  rfl

/-- `Session.handle` when the core handler ends ok and no module reacts -/
theorem Session.handle_core_only (cfg : Cfg) (s : Session) (p : Part) (r : Req) (hint : Nat)
    (s' : Session) (ds : List Delivery) (hc : s.core cfg p r hint = (s', ds, .ok))
    (hm : s'.modules cfg p r = (s', [], .ok)) :
    s.handle cfg p r hint = (s', ds, .ok) := by
  unfold Session.handle
  rw [hc, Res.andThen_ok, hm]
  simp

/-- the dagaz module only reacts to its own four message types -/
theorem Session.dagaz_noop (s : Session) (p : Part) (r : Req)
    (h : match r with
      | .quadSample .. | .groundPlane .. | .region .. | .debugInfo .. | .undecodable .. => False
      | _ => True) : s.dagaz p r = (s, [], .ok) := by
  unfold Session.dagaz
  cases r <;> simp_all

end Hagall

namespace Hagall

/-- the vikja module only reacts to entity deletes and entity actions -/
theorem Session.vikja_noop (s : Session) (p : Part) (r : Req)
    (h : match r with
      | .entityDelete .. | .action .. | .undecodable .. => False
      | _ => True) : s.vikja p r = (s, [], .ok) := by
  unfold Session.vikja
  cases r <;> simp_all

/-- the odal module only reacts to entity deletes and asset adds -/
theorem Session.odal_noop (s : Session) (p : Part) (r : Req)
    (h : match r with
      | .entityDelete .. | .assetAdd .. | .undecodable .. => False
      | _ => True) : s.odal p r = (s, [], .ok) := by
  unfold Session.odal
  cases r <;> simp_all

/-- on an entity delete the modules only clean up when the entity is gone -/
theorem Session.vikja_delete_present (s : Session) (p : Part) (rid ots eid : Nat) (e : Entity)
    (he : s.findEnt eid = some e) : s.vikja p (.entityDelete rid ots eid) = (s, [], .ok) := by
  simp [Session.vikja, he]

theorem Session.odal_delete_present (s : Session) (p : Part) (rid ots eid : Nat) (e : Entity)
    (he : s.findEnt eid = some e) : s.odal p (.entityDelete rid ots eid) = (s, [], .ok) := by
  simp [Session.odal, he]

/-- no module reacts to a request of the core protocol other than an entity delete -/
theorem Session.modules_core_noop (cfg : Cfg) (s : Session) (p : Part) (r : Req)
    (h : match r with
      | .entityDelete .. | .action .. | .assetAdd .. | .quadSample .. | .groundPlane .. | .region ..
      | .debugInfo .. | .undecodable .. => False
      | _ => True) : s.modules cfg p r = (s, [], .ok) := by
  apply Session.modules_noop
  · intro _; apply Session.vikja_noop; cases r <;> simp_all
  · intro _; apply Session.odal_noop; cases r <;> simp_all
  · intro _; apply Session.dagaz_noop; cases r <;> simp_all

/-- for such a request `Session.handle` is the core handler -/
theorem Session.handle_eq_core (cfg : Cfg) (s : Session) (p : Part) (r : Req) (hint : Nat)
    (h : match r with
      | .entityDelete .. | .action .. | .assetAdd .. | .quadSample .. | .groundPlane .. | .region ..
      | .debugInfo .. | .undecodable .. => False
      | _ => True) : s.handle cfg p r hint = s.core cfg p r hint := by
  unfold Session.handle
  rcases hc : s.core cfg p r hint with ⟨s', ds, o⟩
  cases o
  · rw [Res.andThen_ok, Session.modules_core_noop cfg s' p r h]; simp
  · rfl
  · rfl

end Hagall

namespace Hagall

/-- if no module handler delivers anything or fails on this message, neither does the module pass -/
theorem Session.modules_quiet (cfg : Cfg) (p : Part) (r : Req)
    (hv : ∀ t : Session, (t.vikja p r).2 = ([], .ok)) (ho : ∀ t : Session, (t.odal p r).2 = ([], .ok))
    (hd : ∀ t : Session, (t.dagaz p r).2 = ([], .ok)) (s : Session) : (s.modules cfg p r).2 = ([], .ok) := by
  have step : ∀ (r0 : Res) (f : Session → Res), r0.2 = ([], .ok) → (∀ t : Session, (f t).2 = ([], .ok)) →
      (Res.andThen r0 f).2 = ([], .ok) := by
    intro r0 f h0 hf
    obtain ⟨t, ds, o⟩ := r0
    simp only [Prod.mk.injEq] at h0
    obtain ⟨rfl, rfl⟩ := h0
    rw [Res.andThen_ok]
    have := hf t
    rcases hft : f t with ⟨a, b, c⟩
    rw [hft] at this
    simp only [Prod.mk.injEq] at this
    simp [this.1, this.2]
  unfold Session.modules
  apply step
  · apply step
    · apply step
      · rfl
      · intro t; split
        · exact hv t
        · rfl
    · intro t; split
      · exact ho t
      · rfl
  · intro t; split
    · exact hd t
    · rfl

theorem Session.modules_entityDelete_quiet (cfg : Cfg) (p : Part) (rid ots eid : Nat) (s : Session) :
    (s.modules cfg p (.entityDelete rid ots eid)).2 = ([], .ok) := by
  apply Session.modules_quiet
  · intro t; unfold Session.vikja; simp only []; split <;> rfl
  · intro t; unfold Session.odal; simp only []; split <;> rfl
  · intro t; rfl

end Hagall
