/-
  Frame lemmas: lifting a reflexive-transitive relation between sessions through the whole
  `handleMessage` path, and what the handlers leave untouched.
-/
import Hagall.Proofs.Handle
namespace Hagall

theorem Res.andThen_rel (R : Session → Session → Prop) (htrans : ∀ a b c, R a b → R b c → R a c)
    {s : Session} {r : Res} {f : Session → Res} (h1 : R s r.1) (h2 : ∀ t : Session, R t (f t).1) :
    R s (Res.andThen r f).1 := by
  obtain ⟨t, ds, o⟩ := r
  cases o
  · rw [Res.andThen_ok]; exact htrans _ _ _ h1 (h2 t)
  · exact h1
  · exact h1

/-- a reflexive, transitive relation that every module handler respects is respected by the module pass -/
theorem Session.modules_rel (R : Session → Session → Prop) (hrefl : ∀ a, R a a) (htrans : ∀ a b c, R a b → R b c → R a c)
    (cfg : Cfg) (p : Part) (r : Req)
    (hv : ∀ t : Session, R t (t.vikja p r).1) (ho : ∀ t : Session, R t (t.odal p r).1)
    (hd : ∀ t : Session, R t (t.dagaz p r).1) (s : Session) : R s (s.modules cfg p r).1 := by
  unfold Session.modules
  apply Res.andThen_rel R htrans
  · apply Res.andThen_rel R htrans
    · apply Res.andThen_rel R htrans
      · exact hrefl s
      · intro t; split
        · exact hv t
        · exact hrefl t
    · intro t; split
      · exact ho t
      · exact hrefl t
  · intro t; split
    · exact hd t
    · exact hrefl t

theorem Session.handle_rel (R : Session → Session → Prop) (hrefl : ∀ a, R a a) (htrans : ∀ a b c, R a b → R b c → R a c)
    (cfg : Cfg) (p : Part) (r : Req) (hint : Nat)
    (hc : ∀ t : Session, R t (t.core cfg p r hint).1)
    (hv : ∀ t : Session, R t (t.vikja p r).1) (ho : ∀ t : Session, R t (t.odal p r).1)
    (hd : ∀ t : Session, R t (t.dagaz p r).1) (s : Session) : R s (s.handle cfg p r hint).1 := by
  unfold Session.handle
  apply Res.andThen_rel R htrans (hc s)
  intro t
  exact Session.modules_rel R hrefl htrans cfg p r hv ho hd t

/-- the membership part of a session: untouched by every request but join / departure -/
def Session.sameMembers (s s' : Session) : Prop :=
  s'.id = s.id ∧ s'.uuid = s.uuid ∧ s'.pidCur = s.pidCur ∧ s'.parts = s.parts

theorem Session.sameMembers_refl (s : Session) : s.sameMembers s := ⟨rfl, rfl, rfl, rfl⟩

theorem Session.sameMembers_trans (a b c : Session) (h1 : a.sameMembers b) (h2 : b.sameMembers c) : a.sameMembers c := by
  obtain ⟨a1, a2, a3, a4⟩ := h1; obtain ⟨b1, b2, b3, b4⟩ := h2
  exact ⟨b1.trans a1, b2.trans a2, b3.trans a3, b4.trans a4⟩

/-- tactic: unfold every core handler -/
macro "unfold_core" : tactic =>
  `(tactic| simp only [Session.onPing, Session.latencyStart, Session.entityAdd, Session.entityDelete,
      Session.updatePose, Session.custom, Session.typeAdd, Session.compAdd, Session.compDelete,
      Session.compUpdate, Session.subscribe, Session.unsubscribe])

theorem Session.core_sameMembers (cfg : Cfg) (p : Part) (r : Req) (hint : Nat) (s : Session) :
    s.sameMembers (s.core cfg p r hint).1 := by
  unfold Session.core
  cases r <;> simp only [Session.sameMembers] <;> (try unfold_core) <;>
    (repeat' split) <;> simp [Session.setLat, Session.removeEntity, Lat.sendPing]

theorem Session.vikja_sameMembers (p : Part) (r : Req) (s : Session) : s.sameMembers (s.vikja p r).1 := by
  unfold Session.vikja
  cases r <;> simp only [Session.sameMembers] <;> (repeat' split) <;> simp [Session.setAction] <;> (repeat' split) <;> simp

theorem Session.odal_sameMembers (p : Part) (r : Req) (s : Session) : s.sameMembers (s.odal p r).1 := by
  unfold Session.odal
  cases r <;> simp only [Session.sameMembers] <;> (repeat' split) <;> simp [Session.setAsset] <;> (repeat' split) <;> simp

theorem Session.dagaz_sameMembers (p : Part) (r : Req) (s : Session) : s.sameMembers (s.dagaz p r).1 := by
  unfold Session.dagaz
  cases r <;> simp [Session.sameMembers]

theorem Session.handle_sameMembers (cfg : Cfg) (s : Session) (p : Part) (r : Req) (hint : Nat) :
    s.sameMembers (s.handle cfg p r hint).1 :=
  Session.handle_rel Session.sameMembers Session.sameMembers_refl Session.sameMembers_trans cfg p r hint
    (Session.core_sameMembers cfg p r hint) (Session.vikja_sameMembers p r) (Session.odal_sameMembers p r)
    (Session.dagaz_sameMembers p r) s

/-- modules never touch entities, components, types or subscriptions -/
def Session.sameCore (s s' : Session) : Prop :=
  s'.ents = s.ents ∧ s'.eidCur = s.eidCur ∧ s'.comps = s.comps ∧ s'.types = s.types ∧ s'.tidCur = s.tidCur ∧
  s'.subs = s.subs ∧ s'.parts = s.parts ∧ s'.lats = s.lats

theorem Session.sameCore_refl (s : Session) : s.sameCore s := ⟨rfl, rfl, rfl, rfl, rfl, rfl, rfl, rfl⟩
theorem Session.sameCore_trans (a b c : Session) (h1 : a.sameCore b) (h2 : b.sameCore c) : a.sameCore c := by
  obtain ⟨a1, a2, a3, a4, a5, a6, a7, a8⟩ := h1; obtain ⟨b1, b2, b3, b4, b5, b6, b7, b8⟩ := h2
  exact ⟨b1.trans a1, b2.trans a2, b3.trans a3, b4.trans a4, b5.trans a5, b6.trans a6, b7.trans a7, b8.trans a8⟩

theorem Session.vikja_sameCore (p : Part) (r : Req) (s : Session) : s.sameCore (s.vikja p r).1 := by
  unfold Session.vikja
  cases r <;> simp only [Session.sameCore] <;> (repeat' split) <;> simp [Session.setAction] <;> (repeat' split) <;> simp

theorem Session.odal_sameCore (p : Part) (r : Req) (s : Session) : s.sameCore (s.odal p r).1 := by
  unfold Session.odal
  cases r <;> simp only [Session.sameCore] <;> (repeat' split) <;> simp [Session.setAsset] <;> (repeat' split) <;> simp

theorem Session.dagaz_sameCore (p : Part) (r : Req) (s : Session) : s.sameCore (s.dagaz p r).1 := by
  unfold Session.dagaz
  cases r <;> simp [Session.sameCore]

theorem Session.modules_sameCore (cfg : Cfg) (p : Part) (r : Req) (s : Session) : s.sameCore (s.modules cfg p r).1 :=
  Session.modules_rel Session.sameCore Session.sameCore_refl Session.sameCore_trans cfg p r
    (Session.vikja_sameCore p r) (Session.odal_sameCore p r) (Session.dagaz_sameCore p r) s

end Hagall

namespace Hagall

/-! ### no signed latency measurement anywhere: kept by every request that does not start one -/

def Req.isLatency : Req → Bool
  | .signedLatency .. => true
  | _ => false

theorem Session.latOf_nil {s : Session} (h : s.lats = []) (pid : Nat) : s.latOf pid = {} := by
  simp [Session.latOf, h]

theorem Session.abandoned_nil {s : Session} (h : s.lats = []) (p : Part) : s.abandoned p = [] := by
  simp [Session.abandoned, Session.latOf_nil h]

theorem Session.core_lats_nil (cfg : Cfg) (p : Part) (r : Req) (hint : Nat) (s : Session) (h : s.lats = [])
    (hr : r.isLatency = false) : (s.core cfg p r hint).1.lats = [] := by
  unfold Session.core
  cases r <;> simp only [Req.isLatency] at hr <;> (try unfold_core) <;>
    (try simp only [Session.latOf_nil h]) <;> (repeat' split) <;>
    simp_all [Session.setLat, Session.removeEntity, Lat.sendPing]

theorem Session.handle_lats_nil (cfg : Cfg) (p : Part) (r : Req) (hint : Nat) (s : Session) (h : s.lats = [])
    (hr : r.isLatency = false) : (s.handle cfg p r hint).1.lats = [] := by
  unfold Session.handle Res.andThen
  have h1 := Session.core_lats_nil cfg p r hint s h hr
  rcases hc : s.core cfg p r hint with ⟨s1, ds1, o1⟩
  rw [hc] at h1
  simp only []
  cases o1 with
  | ok =>
    simp only []
    have := (Session.modules_sameCore cfg p r s1).2.2.2.2.2.2.2
    rcases hm : s1.modules cfg p r with ⟨s2, ds2, o2⟩
    rw [hm] at this
    simp only [] at this ⊢
    rw [this]; exact h1
  | connError => exact h1
  | panic site => exact h1

theorem Session.leave_lats_nil (cfg : Cfg) (s : Session) (pid : Nat) (h : s.lats = []) : (s.leave cfg pid).1.lats = [] := by
  simp [Session.leave, h]

end Hagall
