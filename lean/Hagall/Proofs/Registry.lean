/-
  Invariant of the concurrent registry model (`Model/Registry.lean`), preserved by every critical section of every
  connection: the proof obligations behind `Props/C07Conc.lean`.
-/
import Hagall.Model.Registry
namespace Hagall.Registry

def Then.objs : Then → List Nat
  | .stop => []
  | .into o => [o]
  | .create => []

/-- the session objects a connection's participant is in, as a function of where its handler stands -/
def held : PC → List Nat
  | .idle cur => cur.toList
  | .add cur _ => cur.toList
  | .rem o k => o :: k.objs
  | .unreg _ k => k.objs
  | .newid => []
  | .register _ => []

structure Inv (s : St) : Prop where
  regNodup : (s.reg.map Prod.fst).Nodup
  regOk : ∀ i o, (i, o) ∈ s.reg → o < s.n ∧ (s.obj o).id = i
  alive : ∀ o, o < s.n → (s.obj o).ended = false → ((s.obj o).id, o) ∈ s.reg ∧ (s.obj o).members ≠ []
  dead : ∀ o, o < s.n → (s.obj o).ended = true →
    (s.obj o).members = [] ∧ (((s.obj o).id, o) ∈ s.reg ↔ ∃ c k, s.pc c = .unreg o k)
  unregOk : ∀ c o k, s.pc c = .unreg o k → o < s.n ∧ (s.obj o).ended = true
  unregUnique : ∀ c c' o k k', s.pc c = .unreg o k → s.pc c' = .unreg o k' → c = c'
  mem : ∀ c o, o < s.n → (c ∈ (s.obj o).members ↔ o ∈ held (s.pc c))
  heldLive : ∀ c o, o ∈ held (s.pc c) → o < s.n
  heldNodup : ∀ c, (held (s.pc c)).Nodup
  addOk : ∀ c cur o, s.pc c = .add cur o → o < s.n ∧ o ∉ cur.toList
  regIds : ∀ i o, (i, o) ∈ s.reg → i ≤ s.cur ∧ i ∉ s.pool
  pend : ∀ c i, s.pc c = .register i → i ≤ s.cur ∧ i ∉ s.pool ∧ i ∉ s.reg.map Prod.fst
  pendUnique : ∀ c c' i, s.pc c = .register i → s.pc c' = .register i → c = c'
  poolLe : ∀ i, i ∈ s.pool → i ≤ s.cur
  gauge : s.gauge = s.reg.length

@[simp] theorem setPc_self (s : St) (c : Nat) (p : PC) : (s.setPc c p).pc c = p := by simp [St.setPc]
theorem setPc_ne (s : St) {c c' : Nat} (p : PC) (h : c' ≠ c) : (s.setPc c p).pc c' = s.pc c' := by simp [St.setPc, h]
@[simp] theorem setPc_n (s : St) (c : Nat) (p : PC) : (s.setPc c p).n = s.n := rfl
@[simp] theorem setPc_obj (s : St) (c : Nat) (p : PC) : (s.setPc c p).obj = s.obj := rfl
@[simp] theorem setPc_reg (s : St) (c : Nat) (p : PC) : (s.setPc c p).reg = s.reg := rfl
@[simp] theorem setPc_pool (s : St) (c : Nat) (p : PC) : (s.setPc c p).pool = s.pool := rfl
@[simp] theorem setPc_cur (s : St) (c : Nat) (p : PC) : (s.setPc c p).cur = s.cur := rfl
@[simp] theorem setPc_gauge (s : St) (c : Nat) (p : PC) : (s.setPc c p).gauge = s.gauge := rfl
@[simp] theorem setObj_self (s : St) (o : Nat) (v : Obj) : (s.setObj o v).obj o = v := by simp [St.setObj]
theorem setObj_ne (s : St) {o o' : Nat} (v : Obj) (h : o' ≠ o) : (s.setObj o v).obj o' = s.obj o' := by simp [St.setObj, h]
@[simp] theorem setObj_n (s : St) (o : Nat) (v : Obj) : (s.setObj o v).n = s.n := rfl
@[simp] theorem setObj_pc (s : St) (o : Nat) (v : Obj) : (s.setObj o v).pc = s.pc := rfl
@[simp] theorem setObj_reg (s : St) (o : Nat) (v : Obj) : (s.setObj o v).reg = s.reg := rfl
@[simp] theorem setObj_pool (s : St) (o : Nat) (v : Obj) : (s.setObj o v).pool = s.pool := rfl
@[simp] theorem setObj_cur (s : St) (o : Nat) (v : Obj) : (s.setObj o v).cur = s.cur := rfl
@[simp] theorem setObj_gauge (s : St) (o : Nat) (v : Obj) : (s.setObj o v).gauge = s.gauge := rfl

theorem lookup_mem {reg : List (Nat × Nat)} {i o : Nat} (h : lookup reg i = some o) : (i, o) ∈ reg := by
  unfold lookup at h
  cases hf : reg.find? (fun (p : Nat × Nat) => p.1 == i) with
  | none => simp [hf] at h
  | some p =>
    simp [hf] at h
    have h1 := List.find?_some hf
    have h2 := List.mem_of_find?_eq_some hf
    simp at h1
    obtain ⟨a, b⟩ := p
    simp at h1 h
    subst h1; subst h
    exact h2

theorem Inv.init : Inv {} := by
  constructor <;> simp [held]

/-- two registry entries under one number are the same entry -/
theorem Inv.reg_inj {s : St} (h : Inv s) {i o o' : Nat} (h1 : (i, o) ∈ s.reg) (h2 : (i, o') ∈ s.reg) : o = o' := by
  have hn := h.regNodup
  generalize s.reg = l at hn h1 h2
  induction l with
  | nil => simp at h1
  | cons x xs ih =>
    simp only [List.map_cons, List.nodup_cons, List.mem_map, not_exists, not_and] at hn
    rcases List.mem_cons.mp h1 with e1 | m1 <;> rcases List.mem_cons.mp h2 with e2 | m2
    · rw [← e1] at e2; exact (Prod.mk.inj e2).2.symm
    · exact absurd (by rw [← e1]) (hn.1 (i, o') m2)
    · exact absurd (by rw [← e2]) (hn.1 (i, o) m1)
    · exact ih hn.2 m1 m2

/-- a member's session has not ended and is registered -/
theorem Inv.member_alive {s : St} (h : Inv s) {c o : Nat} (ho : o ∈ held (s.pc c)) :
    (s.obj o).ended = false ∧ ((s.obj o).id, o) ∈ s.reg := by
  have hl := h.heldLive c o ho
  have hm := (h.mem c o hl).mpr ho
  cases he : (s.obj o).ended with
  | false => exact ⟨rfl, (h.alive o hl he).1⟩
  | true => have := (h.dead o hl he).1; rw [this] at hm; simp at hm


@[simp] theorem held_next (k : Then) : held k.next = k.objs := by cases k <;> rfl

theorem next_ne_unreg (k : Then) (o : Nat) (k' : Then) : k.next ≠ .unreg o k' := by cases k <;> simp [Then.next]
theorem next_ne_register (k : Then) (i : Nat) : k.next ≠ .register i := by cases k <;> simp [Then.next]
theorem next_ne_add (k : Then) (cur : Option Nat) (o : Nat) : k.next ≠ .add cur o := by cases k <;> simp [Then.next]

/-- a handler moves on without touching anything shared and without changing which sessions it is in -/
theorem Inv.retarget {s : St} (h : Inv s) {c : Nat} {p : PC}
    (hheld : held p = held (s.pc c))
    (hold : ∀ o k, s.pc c ≠ .unreg o k) (hnew : ∀ o k, p ≠ .unreg o k)
    (hold' : ∀ i, s.pc c ≠ .register i) (hnew' : ∀ i, p ≠ .register i)
    (hadd : ∀ cur o, p = .add cur o → o < s.n ∧ o ∉ cur.toList) : Inv (s.setPc c p) := by
  have pcs : ∀ c', (s.setPc c p).pc c' = if c' = c then p else s.pc c' := fun c' => by simp [St.setPc]
  have heldEq : ∀ c', held ((s.setPc c p).pc c') = held (s.pc c') := fun c' => by
    rw [pcs]; split
    · next e => rw [e, hheld]
    · rfl
  have unregEq : ∀ c' o k, (s.setPc c p).pc c' = .unreg o k ↔ s.pc c' = .unreg o k := fun c' o k => by
    rw [pcs]; split
    · next e => subst e; exact ⟨fun x => absurd x (hnew o k), fun x => absurd x (hold o k)⟩
    · exact Iff.rfl
  have regEq : ∀ c' i, (s.setPc c p).pc c' = .register i ↔ s.pc c' = .register i := fun c' i => by
    rw [pcs]; split
    · next e => subst e; exact ⟨fun x => absurd x (hnew' i), fun x => absurd x (hold' i)⟩
    · exact Iff.rfl
  constructor
  · exact h.regNodup
  · exact h.regOk
  · exact h.alive
  · intro o ho he
    refine ⟨(h.dead o ho he).1, ?_⟩
    show ((s.obj o).id, o) ∈ s.reg ↔ _
    rw [(h.dead o ho he).2]
    constructor
    · rintro ⟨c', k, hk⟩; exact ⟨c', k, (unregEq c' o k).mpr hk⟩
    · rintro ⟨c', k, hk⟩; exact ⟨c', k, (unregEq c' o k).mp hk⟩
  · intro c' o k hk; exact h.unregOk c' o k ((unregEq c' o k).mp hk)
  · intro c1 c2 o k k' h1 h2; exact h.unregUnique c1 c2 o k k' ((unregEq _ _ _).mp h1) ((unregEq _ _ _).mp h2)
  · intro c' o ho; rw [heldEq]; exact h.mem c' o ho
  · intro c' o ho; rw [heldEq] at ho; exact h.heldLive c' o ho
  · intro c'; rw [heldEq]; exact h.heldNodup c'
  · intro c' cur o hk
    rw [pcs] at hk; split at hk
    · exact hadd cur o hk
    · exact h.addOk c' cur o hk
  · exact h.regIds
  · intro c' i hk; exact h.pend c' i ((regEq c' i).mp hk)
  · intro c1 c2 i h1 h2; exact h.pendUnique c1 c2 i ((regEq _ _).mp h1) ((regEq _ _).mp h2)
  · exact h.poolLe
  · exact h.gauge


/-- AddParticipant succeeds: the connection is in `o` from now on -/
theorem Inv.add_ok {s : St} (h : Inv s) {c o : Nat} {cur : Option Nat} (hpc : s.pc c = .add cur o)
    (hne : (s.obj o).ended = false) (p : PC) (hp : held p = cur.toList ++ [o])
    (hpu : ∀ o k, p ≠ .unreg o k) (hpr : ∀ i, p ≠ .register i) (hpa : ∀ cur o, p ≠ .add cur o) :
    Inv ((s.setObj o { s.obj o with members := c :: (s.obj o).members }).setPc c p) := by
  have ⟨hon, hocur⟩ := h.addOk c cur o hpc
  have pcs : ∀ c', ((s.setObj o { s.obj o with members := c :: (s.obj o).members }).setPc c p).pc c' =
      if c' = c then p else s.pc c' := fun c' => by simp [St.setPc]
  have objs : ∀ o', ((s.setObj o { s.obj o with members := c :: (s.obj o).members }).setPc c p).obj o' =
      if o' = o then { s.obj o with members := c :: (s.obj o).members } else s.obj o' := fun o' => by simp [St.setObj]
  have unregEq : ∀ c' o' k, ((s.setObj o { s.obj o with members := c :: (s.obj o).members }).setPc c p).pc c' = .unreg o' k ↔
      s.pc c' = .unreg o' k := fun c' o' k => by
    rw [pcs]; split
    · next e => subst e; rw [hpc]; exact ⟨fun x => absurd x (hpu o' k), fun x => by simp at x⟩
    · exact Iff.rfl
  have regEq : ∀ c' i, ((s.setObj o { s.obj o with members := c :: (s.obj o).members }).setPc c p).pc c' = .register i ↔
      s.pc c' = .register i := fun c' i => by
    rw [pcs]; split
    · next e => subst e; rw [hpc]; exact ⟨fun x => absurd x (hpr i), fun x => by simp at x⟩
    · exact Iff.rfl
  have idEq : ∀ o', (((s.setObj o { s.obj o with members := c :: (s.obj o).members }).setPc c p).obj o').id = (s.obj o').id := fun o' => by
    rw [objs]; split
    · next e => subst e; rfl
    · rfl
  have endEq : ∀ o', (((s.setObj o { s.obj o with members := c :: (s.obj o).members }).setPc c p).obj o').ended = (s.obj o').ended := fun o' => by
    rw [objs]; split
    · next e => subst e; rfl
    · rfl
  constructor
  · exact h.regNodup
  · intro i o' hm; have := h.regOk i o' hm; exact ⟨this.1, by rw [idEq]; exact this.2⟩
  · intro o' ho' he
    rw [endEq] at he
    have := h.alive o' ho' he
    refine ⟨by rw [idEq]; exact this.1, ?_⟩
    rw [objs]; split
    · simp
    · exact this.2
  · intro o' ho' he
    rw [endEq] at he
    have hd := h.dead o' ho' he
    have hoo : o' ≠ o := fun e => by subst e; rw [hne] at he; cases he
    refine ⟨by rw [objs, if_neg hoo]; exact hd.1, ?_⟩
    rw [idEq]
    show ((s.obj o').id, o') ∈ s.reg ↔ _
    rw [hd.2]
    constructor
    · rintro ⟨c', k, hk⟩; exact ⟨c', k, (unregEq c' o' k).mpr hk⟩
    · rintro ⟨c', k, hk⟩; exact ⟨c', k, (unregEq c' o' k).mp hk⟩
  · intro c' o' k hk
    have := h.unregOk c' o' k ((unregEq c' o' k).mp hk)
    exact ⟨this.1, by rw [endEq]; exact this.2⟩
  · intro c1 c2 o' k k' h1 h2; exact h.unregUnique c1 c2 o' k k' ((unregEq _ _ _).mp h1) ((unregEq _ _ _).mp h2)
  · intro c' o' ho'
    have hm := h.mem c' o' ho'
    rw [objs, pcs]
    by_cases hc : c' = c <;> by_cases ho : o' = o
    · subst hc; subst ho; simp [hp]
    · subst hc; simp only [if_neg ho, if_true]; rw [hm, hpc, hp]; simp [held, ho]
    · subst ho; simp only [if_neg hc, if_true]; rw [← hm]; simp [hc]
    · simp only [if_neg hc, if_neg ho]; exact hm
  · intro c' o' ho'
    rw [pcs] at ho'; split at ho'
    · rw [hp] at ho'
      rcases List.mem_append.mp ho' with h1 | h1
      · next e => subst e; exact h.heldLive c' o' (by rw [hpc]; exact h1)
      · simp at h1; subst h1; exact hon
    · exact h.heldLive c' o' ho'
  · intro c'
    rw [pcs]; split
    · rw [hp]
      cases cur with
      | none => simp
      | some o' => simp at hocur; simp; exact fun e => hocur e.symm
    · exact h.heldNodup c'
  · intro c' cur' o' hk
    rw [pcs] at hk; split at hk
    · exact absurd hk (hpa cur' o')
    · exact h.addOk c' cur' o' hk
  · exact h.regIds
  · intro c' i hk; exact h.pend c' i ((regEq c' i).mp hk)
  · intro c1 c2 i h1 h2; exact h.pendUnique c1 c2 i ((regEq _ _).mp h1) ((regEq _ _).mp h2)
  · exact h.poolLe
  · exact h.gauge


/-- RemoveParticipant: the connection leaves `o`; `last` tells whether nobody is left, in which case `o` has ended and
    this handler is the one to unregister it -/
theorem Inv.rem_ok {s : St} (h : Inv s) {c o : Nat} {k : Then} (hpc : s.pc c = .rem o k) :
    let ms := (s.obj o).members.filter (· != c)
    Inv (if ms.isEmpty then (s.setObj o { s.obj o with members := ms, ended := true }).setPc c (.unreg o k)
         else (s.setObj o { s.obj o with members := ms }).setPc c k.next) := by
  intro ms
  have hheld : held (s.pc c) = o :: k.objs := by rw [hpc]; rfl
  have hoh : o ∈ held (s.pc c) := by rw [hheld]; simp
  have hon : o < s.n := h.heldLive c o hoh
  have ⟨hoe, hor⟩ := h.member_alive hoh
  have hok : o ∉ k.objs := by have := h.heldNodup c; rw [hheld] at this; exact (List.nodup_cons.mp this).1
  have hms : ∀ c', c' ∈ ms ↔ c' ∈ (s.obj o).members ∧ c' ≠ c := fun c' => by simp [ms]
  -- the part common to both branches: the new state has members ms in o, pc p for c with held p = k.objs
  have common : ∀ (e : Bool) (p : PC), held p = k.objs → (∀ cur o', p ≠ .add cur o') → (∀ i, p ≠ .register i) →
      (e = false → ms ≠ [] ∧ ∀ o' k', p ≠ .unreg o' k') → (e = true → ms = [] ∧ p = .unreg o k) →
      Inv ((s.setObj o { s.obj o with members := ms, ended := e }).setPc c p) := by
    intro e p hp hpa hpr hfalse htrue
    have pcs : ∀ c', ((s.setObj o { s.obj o with members := ms, ended := e }).setPc c p).pc c' =
        if c' = c then p else s.pc c' := fun c' => by simp [St.setPc]
    have objs : ∀ o', ((s.setObj o { s.obj o with members := ms, ended := e }).setPc c p).obj o' =
        if o' = o then { s.obj o with members := ms, ended := e } else s.obj o' := fun o' => by simp [St.setObj]
    have idEq : ∀ o', (((s.setObj o { s.obj o with members := ms, ended := e }).setPc c p).obj o').id = (s.obj o').id := fun o' => by
      rw [objs]; split
      · next e => subst e; rfl
      · rfl
    have regEq : ∀ c' i, ((s.setObj o { s.obj o with members := ms, ended := e }).setPc c p).pc c' = .register i ↔
        s.pc c' = .register i := fun c' i => by
      rw [pcs]; split
      · next e => subst e; rw [hpc]; exact ⟨fun x => absurd x (hpr i), fun x => by simp at x⟩
      · exact Iff.rfl
    -- handlers about to unregister an object other than o are the same as before
    have unregNe : ∀ c' o' k', o' ≠ o → (((s.setObj o { s.obj o with members := ms, ended := e }).setPc c p).pc c' = .unreg o' k' ↔
        s.pc c' = .unreg o' k') := fun c' o' k' hne => by
      rw [pcs]; split
      · next ec =>
        subst ec; rw [hpc]
        constructor
        · intro x
          cases e with
          | false => exact absurd x ((hfalse rfl).2 o' k')
          | true => rw [(htrue rfl).2] at x; injection x with x1 _; exact absurd x1.symm hne
        · intro x; simp at x
      · exact Iff.rfl
    -- nobody was about to unregister o (it had not ended)
    have noUnreg : ∀ c' k', s.pc c' ≠ .unreg o k' := fun c' k' x => by
      have := (h.unregOk c' o k' x).2; rw [hoe] at this; cases this
    constructor
    · exact h.regNodup
    · intro i o' hm; have := h.regOk i o' hm; exact ⟨this.1, by rw [idEq]; exact this.2⟩
    · intro o' ho' he
      rw [idEq]; rw [objs] at he ⊢
      split at he
      · next eo =>
        subst eo
        simp only [if_true] at he ⊢
        have he' : e = false := by simpa using he
        subst he'
        exact ⟨hor, (hfalse rfl).1⟩
      · next eo => simp only [if_neg eo]; exact h.alive o' ho' he
    · intro o' ho' he
      rw [idEq]; rw [objs] at he ⊢
      split at he
      · next eo =>
        subst eo
        simp only [if_true] at he ⊢
        have he' : e = true := by simpa using he
        subst he'
        refine ⟨(htrue rfl).1, ?_⟩
        show ((s.obj o').id, o') ∈ s.reg ↔ _
        refine ⟨fun _ => ⟨c, k, by rw [pcs, if_pos rfl]; exact (htrue rfl).2⟩, fun _ => hor⟩
      · next eo =>
        simp only [if_neg eo]
        have hd := h.dead o' ho' he
        refine ⟨hd.1, ?_⟩
        show ((s.obj o').id, o') ∈ s.reg ↔ _
        rw [hd.2]
        constructor
        · rintro ⟨c', k', hk⟩; exact ⟨c', k', (unregNe c' o' k' eo).mpr hk⟩
        · rintro ⟨c', k', hk⟩; exact ⟨c', k', (unregNe c' o' k' eo).mp hk⟩
    · intro c' o' k' hk
      by_cases eo : o' = o
      · subst eo
        refine ⟨hon, ?_⟩
        rw [objs, if_pos rfl]
        rw [pcs] at hk; split at hk
        · cases e with
          | false => exact absurd hk ((hfalse rfl).2 o' k')
          | true => rfl
        · exact absurd hk (noUnreg c' k')
      · have := h.unregOk c' o' k' ((unregNe c' o' k' eo).mp hk)
        exact ⟨this.1, by rw [objs, if_neg eo]; exact this.2⟩
    · intro c1 c2 o' k1 k2 h1 h2
      by_cases eo : o' = o
      · subst eo
        rw [pcs] at h1 h2
        split at h1 <;> split at h2
        · next e1 e2 => rw [e1, e2]
        · exact absurd h2 (noUnreg c2 k2)
        · exact absurd h1 (noUnreg c1 k1)
        · exact absurd h1 (noUnreg c1 k1)
      · exact h.unregUnique c1 c2 o' k1 k2 ((unregNe _ _ _ eo).mp h1) ((unregNe _ _ _ eo).mp h2)
    · intro c' o' ho'
      have hm := h.mem c' o' ho'
      rw [objs, pcs]
      by_cases hc : c' = c <;> by_cases ho : o' = o
      · subst hc; subst ho; simp only [if_true]; rw [hp]
        show c' ∈ ms ↔ _
        rw [hms]; simp [hok]
      · subst hc; simp only [if_neg ho, if_true]; rw [hm, hheld, hp]; simp [ho]
      · subst ho; simp only [if_neg hc, if_true]
        show c' ∈ ms ↔ _
        rw [hms, ← hm]; simp [hc]
      · simp only [if_neg hc, if_neg ho]; exact hm
    · intro c' o' ho'
      rw [pcs] at ho'; split at ho'
      · next ec => subst ec; rw [hp] at ho'; exact h.heldLive c' o' (by rw [hheld]; exact List.mem_cons_of_mem _ ho')
      · exact h.heldLive c' o' ho'
    · intro c'
      rw [pcs]; split
      · rw [hp]; have := h.heldNodup c; rw [hheld] at this; exact (List.nodup_cons.mp this).2
      · exact h.heldNodup c'
    · intro c' cur' o' hk
      rw [pcs] at hk; split at hk
      · exact absurd hk (hpa cur' o')
      · exact h.addOk c' cur' o' hk
    · exact h.regIds
    · intro c' i hk; exact h.pend c' i ((regEq c' i).mp hk)
    · intro c1 c2 i h1 h2; exact h.pendUnique c1 c2 i ((regEq _ _).mp h1) ((regEq _ _).mp h2)
    · exact h.poolLe
    · exact h.gauge
  split
  · next hemp =>
    have : ms = [] := by simpa using hemp
    exact common true (.unreg o k) rfl (fun _ _ => by simp) (fun _ => by simp) (fun x => by cases x) (fun _ => ⟨this, rfl⟩)
  · next hemp =>
    have hne : ms ≠ [] := by simpa using hemp
    have := common false k.next (held_next k) (next_ne_add k) (next_ne_register k) (fun _ => ⟨hne, next_ne_unreg k⟩) (fun x => by cases x)
    have hobj : ({ s.obj o with members := ms, ended := false } : Obj) = { s.obj o with members := ms } := by
      cases hv : s.obj o; rw [hv] at hoe; simp at hoe; simp [hoe]
    rw [hobj] at this
    exact this


theorem filter_fst_of_not_mem {l : List (Nat × Nat)} {i : Nat} (h : i ∉ l.map Prod.fst) :
    l.filter (fun (p : Nat × Nat) => p.1 != i) = l := by
  induction l with
  | nil => rfl
  | cons x xs ih =>
    simp only [List.map_cons, List.mem_cons, not_or] at h
    have hx : (x.1 != i) = true := by simp; exact fun e => h.1 e.symm
    simp [List.filter_cons, hx, ih h.2]

theorem filter_fst_length {l : List (Nat × Nat)} {i o : Nat} (hn : (l.map Prod.fst).Nodup) (hm : (i, o) ∈ l) :
    (l.filter (fun (p : Nat × Nat) => p.1 != i)).length + 1 = l.length := by
  induction l with
  | nil => simp at hm
  | cons x xs ih =>
    simp only [List.map_cons, List.nodup_cons] at hn
    rcases List.mem_cons.mp hm with e | m
    · subst e
      have : (xs.filter (fun (p : Nat × Nat) => p.1 != i)) = xs := filter_fst_of_not_mem hn.1
      simp [List.filter_cons, this]
    · have hx : x.1 ≠ i := fun e => hn.1 (by rw [e]; exact List.mem_map.mpr ⟨(i, o), m, rfl⟩)
      have hx' : (x.1 != i) = true := by simp [hx]
      simp [List.filter_cons, hx', ih hn.2 m]

theorem mem_filter_fst {l : List (Nat × Nat)} {i : Nat} {q : Nat × Nat} :
    q ∈ l.filter (fun (p : Nat × Nat) => p.1 != i) ↔ q ∈ l ∧ q.1 ≠ i := by simp

@[simp] theorem dropReg_n (s : St) (i : Nat) : (s.dropReg i).n = s.n := rfl
@[simp] theorem dropReg_obj (s : St) (i : Nat) : (s.dropReg i).obj = s.obj := rfl
@[simp] theorem dropReg_pc (s : St) (i : Nat) : (s.dropReg i).pc = s.pc := rfl
@[simp] theorem dropReg_cur (s : St) (i : Nat) : (s.dropReg i).cur = s.cur := rfl
theorem dropReg_reg (s : St) (i : Nat) : (s.dropReg i).reg = s.reg.filter (fun (p : Nat × Nat) => p.1 != i) := rfl
theorem dropReg_pool (s : St) (i : Nat) : (s.dropReg i).pool = i :: s.pool.filter (· != i) := rfl
theorem dropReg_gauge (s : St) (i : Nat) : (s.dropReg i).gauge = s.gauge - 1 := rfl

/-- SessionStore.Remove by the handler that removed the last participant -/
theorem Inv.unreg_ok {s : St} (h : Inv s) {c o : Nat} {k : Then} (hpc : s.pc c = .unreg o k) :
    Inv ((s.dropReg (s.obj o).id).setPc c k.next) := by
  have ⟨hon, hoe⟩ := h.unregOk c o k hpc
  have hor : ((s.obj o).id, o) ∈ s.reg := ((h.dead o hon hoe).2).mpr ⟨c, k, hpc⟩
  generalize hi : (s.obj o).id = i at *
  have pcs : ∀ c', ((s.dropReg i).setPc c k.next).pc c' = if c' = c then k.next else s.pc c' := fun c' => by simp [St.setPc]
  have regEq : ∀ c' j, ((s.dropReg i).setPc c k.next).pc c' = .register j ↔ s.pc c' = .register j := fun c' j => by
    rw [pcs]; split
    · next e => subst e; rw [hpc]; exact ⟨fun x => absurd x (next_ne_register k j), fun x => by simp at x⟩
    · exact Iff.rfl
  have heldEq : ∀ c', held (((s.dropReg i).setPc c k.next).pc c') = held (s.pc c') := fun c' => by
    rw [pcs]; split
    · next e => subst e; rw [hpc, held_next]; rfl
    · rfl
  -- a registered entry other than o's keeps its number
  have other : ∀ j o', (j, o') ∈ s.reg → o' ≠ o → j ≠ i := fun j o' hm hne e => by
    subst e; exact hne (h.reg_inj hm hor)
  constructor
  · show ((s.reg.filter _).map Prod.fst).Nodup
    exact List.Nodup.sublist (List.Sublist.map _ (List.filter_sublist)) h.regNodup
  · intro j o' hm
    have hm' : (j, o') ∈ s.reg := (mem_filter_fst.mp hm).1
    exact h.regOk j o' hm'
  · intro o' ho' he
    have ha := h.alive o' ho' he
    have hne : o' ≠ o := fun e => by
      subst e; have he' : (s.obj o').ended = false := he; rw [hoe] at he'; cases he'
    exact ⟨mem_filter_fst.mpr ⟨ha.1, other _ _ ha.1 hne⟩, ha.2⟩
  · intro o' ho' he
    have hd := h.dead o' ho' he
    refine ⟨hd.1, ?_⟩
    show ((s.obj o').id, o') ∈ s.reg.filter _ ↔ _
    by_cases eo : o' = o
    · subst eo
      constructor
      · intro hm; have := (mem_filter_fst.mp hm).2; exact absurd hi this
      · rintro ⟨c', k', hk⟩
        rw [pcs] at hk; split at hk
        · exact absurd hk (next_ne_unreg k o' k')
        · next hc => exact absurd (h.unregUnique c' c o' k' k hk hpc) hc
    · rw [mem_filter_fst]
      constructor
      · rintro ⟨hm, _⟩
        obtain ⟨c', k', hk⟩ := hd.2.mp hm
        refine ⟨c', k', ?_⟩
        rw [pcs]; split
        · next hc => subst hc; rw [hpc] at hk; injection hk with h1 _; exact absurd h1.symm eo
        · exact hk
      · rintro ⟨c', k', hk⟩
        rw [pcs] at hk; split at hk
        · exact absurd hk (next_ne_unreg k o' k')
        · have hm := hd.2.mpr ⟨c', k', hk⟩
          exact ⟨hm, other _ _ hm eo⟩
  · intro c' o' k' hk
    rw [pcs] at hk; split at hk
    · exact absurd hk (next_ne_unreg k o' k')
    · exact h.unregOk c' o' k' hk
  · intro c1 c2 o' k1 k2 h1 h2
    rw [pcs] at h1 h2
    split at h1
    · exact absurd h1 (next_ne_unreg k o' k1)
    · split at h2
      · exact absurd h2 (next_ne_unreg k o' k2)
      · exact h.unregUnique c1 c2 o' k1 k2 h1 h2
  · intro c' o' ho'; rw [heldEq]; exact h.mem c' o' ho'
  · intro c' o' ho'; rw [heldEq] at ho'; exact h.heldLive c' o' ho'
  · intro c'; rw [heldEq]; exact h.heldNodup c'
  · intro c' cur' o' hk
    rw [pcs] at hk; split at hk
    · exact absurd hk (next_ne_add k cur' o')
    · exact h.addOk c' cur' o' hk
  · intro j o' hm
    have hm' := mem_filter_fst.mp hm
    have := h.regIds j o' hm'.1
    refine ⟨this.1, ?_⟩
    show j ∉ i :: s.pool.filter (· != i)
    simp only [List.mem_cons, List.mem_filter, not_or, not_and]
    exact ⟨hm'.2, fun x => absurd x this.2⟩
  · intro c' j hk
    have hp := h.pend c' j ((regEq c' j).mp hk)
    have hji : j ≠ i := fun e => hp.2.2 (by rw [e]; exact List.mem_map.mpr ⟨(i, o), hor, rfl⟩)
    refine ⟨hp.1, ?_, ?_⟩
    · show j ∉ i :: s.pool.filter (· != i)
      simp only [List.mem_cons, List.mem_filter, not_or, not_and]
      exact ⟨hji, fun x => absurd x hp.2.1⟩
    · show j ∉ (s.reg.filter _).map Prod.fst
      intro hm
      obtain ⟨q, hq, hq1⟩ := List.mem_map.mp hm
      exact hp.2.2 (List.mem_map.mpr ⟨q, (mem_filter_fst.mp hq).1, hq1⟩)
  · intro c1 c2 j h1 h2; exact h.pendUnique c1 c2 j ((regEq _ _).mp h1) ((regEq _ _).mp h2)
  · intro j hj
    have hj' : j ∈ i :: s.pool.filter (· != i) := hj
    rcases List.mem_cons.mp hj' with e | m
    · rw [e]; exact (h.regIds i o hor).1
    · exact h.poolLe j (List.mem_filter.mp m).1
  · show s.gauge - 1 = ((s.reg.filter _).length : Int)
    have := filter_fst_length h.regNodup hor
    rw [h.gauge]; omega


theorem pick_spec (pool : List Nat) (cur hint : Nat) :
    pick pool cur hint ∈ pool ∨ (pool = [] ∧ pick pool cur hint = cur + 1) := by
  unfold pick
  split
  · next hm => exact Or.inl hm
  · cases pool with
    | nil => exact Or.inr ⟨rfl, rfl⟩
    | cons x xs => exact Or.inl (by simp)

@[simp] theorem takeId_n (s : St) (i : Nat) : (s.takeId i).n = s.n := rfl
@[simp] theorem takeId_obj (s : St) (i : Nat) : (s.takeId i).obj = s.obj := rfl
@[simp] theorem takeId_pc (s : St) (i : Nat) : (s.takeId i).pc = s.pc := rfl
@[simp] theorem takeId_reg (s : St) (i : Nat) : (s.takeId i).reg = s.reg := rfl
@[simp] theorem takeId_gauge (s : St) (i : Nat) : (s.takeId i).gauge = s.gauge := rfl
theorem takeId_pool (s : St) (i : Nat) : (s.takeId i).pool = s.pool.filter (· != i) := rfl
theorem takeId_cur (s : St) (i : Nat) : (s.takeId i).cur = if i ∈ s.pool then s.cur else s.cur + 1 := rfl

/-- SequentialIDGenerator.New: a released number, or the next fresh one when none is waiting -/
theorem Inv.newid_ok {s : St} (h : Inv s) {c : Nat} (hpc : s.pc c = .newid) (hint : Nat) :
    Inv ((s.takeId (pick s.pool s.cur hint)).setPc c (.register (pick s.pool s.cur hint))) := by
  have hpick := pick_spec s.pool s.cur hint
  generalize pick s.pool s.cur hint = i at *
  have pcs : ∀ c', ((s.takeId i).setPc c (.register i)).pc c' = if c' = c then .register i else s.pc c' := fun c' => by simp [St.setPc]
  have unregEq : ∀ c' o k, ((s.takeId i).setPc c (.register i)).pc c' = .unreg o k ↔ s.pc c' = .unreg o k := fun c' o k => by
    rw [pcs]; split
    · next e => subst e; rw [hpc]; exact ⟨fun x => by simp at x, fun x => by simp at x⟩
    · exact Iff.rfl
  have heldEq : ∀ c', held (((s.takeId i).setPc c (.register i)).pc c') = held (s.pc c') := fun c' => by
    rw [pcs]; split
    · next e => subst e; rw [hpc]; rfl
    · rfl
  have curLe : s.cur ≤ (s.takeId i).cur := by rw [takeId_cur]; split <;> omega
  have iLe : i ≤ (s.takeId i).cur := by
    rw [takeId_cur]
    rcases hpick with hm | ⟨hp, hi⟩
    · rw [if_pos hm]; exact h.poolLe i hm
    · rw [hp]; simp; omega
  -- the number handed out is in nobody's hands
  have iFreeReg : i ∉ s.reg.map Prod.fst := fun hm => by
    obtain ⟨q, hq, hq1⟩ := List.mem_map.mp hm
    have := h.regIds q.1 q.2 hq
    rcases hpick with hm' | ⟨_, hi⟩
    · rw [hq1] at this; exact this.2 hm'
    · rw [hq1] at this; omega
  have iFreePend : ∀ c', s.pc c' ≠ .register i := fun c' hk => by
    have := h.pend c' i hk
    rcases hpick with hm' | ⟨_, hi⟩
    · exact this.2.1 hm'
    · omega
  constructor
  · exact h.regNodup
  · exact h.regOk
  · exact h.alive
  · intro o ho he
    refine ⟨(h.dead o ho he).1, ?_⟩
    show ((s.obj o).id, o) ∈ s.reg ↔ _
    rw [(h.dead o ho he).2]
    constructor
    · rintro ⟨c', k, hk⟩; exact ⟨c', k, (unregEq c' o k).mpr hk⟩
    · rintro ⟨c', k, hk⟩; exact ⟨c', k, (unregEq c' o k).mp hk⟩
  · intro c' o k hk; exact h.unregOk c' o k ((unregEq c' o k).mp hk)
  · intro c1 c2 o k k' h1 h2; exact h.unregUnique c1 c2 o k k' ((unregEq _ _ _).mp h1) ((unregEq _ _ _).mp h2)
  · intro c' o ho; rw [heldEq]; exact h.mem c' o ho
  · intro c' o ho; rw [heldEq] at ho; exact h.heldLive c' o ho
  · intro c'; rw [heldEq]; exact h.heldNodup c'
  · intro c' cur o hk
    rw [pcs] at hk; split at hk
    · simp at hk
    · exact h.addOk c' cur o hk
  · intro j o hm
    have := h.regIds j o hm
    refine ⟨Nat.le_trans this.1 curLe, ?_⟩
    show j ∉ s.pool.filter (· != i)
    exact fun x => this.2 (List.mem_filter.mp x).1
  · intro c' j hk
    rw [pcs] at hk; split at hk
    · injection hk with hk; subst hk
      refine ⟨iLe, ?_, iFreeReg⟩
      show i ∉ s.pool.filter (· != i)
      simp
    · have := h.pend c' j hk
      refine ⟨Nat.le_trans this.1 curLe, ?_, this.2.2⟩
      show j ∉ s.pool.filter (· != i)
      exact fun x => this.2.1 (List.mem_filter.mp x).1
  · intro c1 c2 j h1 h2
    rw [pcs] at h1 h2
    split at h1 <;> split at h2
    · next e1 e2 => rw [e1, e2]
    · injection h1 with h1; subst h1; exact absurd h2 (iFreePend c2)
    · injection h2 with h2; subst h2; exact absurd h1 (iFreePend c1)
    · exact h.pendUnique c1 c2 j h1 h2
  · intro j hj
    have hj' : j ∈ s.pool.filter (· != i) := hj
    exact Nat.le_trans (h.poolLe j (List.mem_filter.mp hj').1) curLe
  · exact h.gauge

@[simp] theorem addReg_n (s : St) (i c : Nat) : (s.addReg i c).n = s.n + 1 := rfl
@[simp] theorem addReg_pc (s : St) (i c : Nat) : (s.addReg i c).pc = s.pc := rfl
@[simp] theorem addReg_pool (s : St) (i c : Nat) : (s.addReg i c).pool = s.pool := rfl
@[simp] theorem addReg_cur (s : St) (i c : Nat) : (s.addReg i c).cur = s.cur := rfl
theorem addReg_reg (s : St) (i c : Nat) : (s.addReg i c).reg = (i, s.n) :: s.reg.filter (fun (p : Nat × Nat) => p.1 != i) := rfl
theorem addReg_gauge (s : St) (i c : Nat) : (s.addReg i c).gauge = s.gauge + 1 := rfl
theorem addReg_obj (s : St) (i c o : Nat) :
    (s.addReg i c).obj o = if o = s.n then { id := i, members := [c], ended := false } else s.obj o := by
  simp [St.addReg, St.setObj]

/-- SessionStore.Add of a new session object that already holds its creator -/
theorem Inv.register_ok {s : St} (h : Inv s) {c i : Nat} (hpc : s.pc c = .register i) :
    Inv ((s.addReg i c).setPc c (.idle (some s.n))) := by
  have ⟨hic, hip, hir⟩ := h.pend c i hpc
  have hreg : (s.addReg i c).reg = (i, s.n) :: s.reg := by rw [addReg_reg, filter_fst_of_not_mem hir]
  have pcs : ∀ c', ((s.addReg i c).setPc c (.idle (some s.n))).pc c' = if c' = c then .idle (some s.n) else s.pc c' :=
    fun c' => by simp [St.setPc]
  have objs : ∀ o, ((s.addReg i c).setPc c (.idle (some s.n))).obj o =
      if o = s.n then { id := i, members := [c], ended := false } else s.obj o := fun o => by
    show (s.addReg i c).obj o = _; exact addReg_obj s i c o
  have regs : ((s.addReg i c).setPc c (.idle (some s.n))).reg = (i, s.n) :: s.reg := hreg
  have unregEq : ∀ c' o k, ((s.addReg i c).setPc c (.idle (some s.n))).pc c' = .unreg o k ↔ s.pc c' = .unreg o k := fun c' o k => by
    rw [pcs]; split
    · next e => subst e; rw [hpc]; exact ⟨fun x => by simp at x, fun x => by simp at x⟩
    · exact Iff.rfl
  have oldObj : ∀ o, o < s.n → ((s.addReg i c).setPc c (.idle (some s.n))).obj o = s.obj o := fun o ho => by
    rw [objs, if_neg (Nat.ne_of_lt ho)]
  constructor
  · rw [regs]; simp only [List.map_cons, List.nodup_cons]; exact ⟨hir, h.regNodup⟩
  · intro j o hm
    rw [regs] at hm
    rcases List.mem_cons.mp hm with e | m
    · injection e with e1 e2; subst e1; subst e2
      exact ⟨Nat.lt_succ_self _, by rw [objs, if_pos rfl]⟩
    · have := h.regOk j o m
      exact ⟨Nat.lt_succ_of_lt this.1, by rw [oldObj o this.1]; exact this.2⟩
  · intro o ho he
    rw [regs]
    by_cases eo : o = s.n
    · subst eo; rw [objs, if_pos rfl]; simp
    · have ho' : o < s.n := Nat.lt_of_le_of_ne (Nat.le_of_lt_succ ho) eo
      rw [oldObj o ho'] at he ⊢
      have := h.alive o ho' he
      exact ⟨List.mem_cons_of_mem _ this.1, this.2⟩
  · intro o ho he
    by_cases eo : o = s.n
    · subst eo; rw [objs, if_pos rfl] at he; cases he
    · have ho' : o < s.n := Nat.lt_of_le_of_ne (Nat.le_of_lt_succ ho) eo
      rw [oldObj o ho'] at he ⊢
      have hd := h.dead o ho' he
      refine ⟨hd.1, ?_⟩
      rw [regs]
      constructor
      · intro hm
        rcases List.mem_cons.mp hm with e | m
        · injection e with _ e2; exact absurd e2 eo
        · obtain ⟨c', k, hk⟩ := hd.2.mp m; exact ⟨c', k, (unregEq c' o k).mpr hk⟩
      · rintro ⟨c', k, hk⟩
        exact List.mem_cons_of_mem _ (hd.2.mpr ⟨c', k, (unregEq c' o k).mp hk⟩)
  · intro c' o k hk
    have := h.unregOk c' o k ((unregEq c' o k).mp hk)
    exact ⟨Nat.lt_succ_of_lt this.1, by rw [oldObj o this.1]; exact this.2⟩
  · intro c1 c2 o k k' h1 h2; exact h.unregUnique c1 c2 o k k' ((unregEq _ _ _).mp h1) ((unregEq _ _ _).mp h2)
  · intro c' o ho
    rw [objs, pcs]
    by_cases eo : o = s.n
    · subst eo
      simp only [if_true]
      by_cases ec : c' = c
      · subst ec; simp [held]
      · simp only [if_neg ec]
        constructor
        · intro hm; simp at hm; exact absurd hm ec
        · intro hm; exact absurd (h.heldLive c' _ hm) (Nat.lt_irrefl _)
    · have ho' : o < s.n := Nat.lt_of_le_of_ne (Nat.le_of_lt_succ ho) eo
      simp only [if_neg eo]
      by_cases ec : c' = c
      · subst ec
        simp only [if_true]
        rw [h.mem c' o ho', hpc]
        simp [held, eo]
      · simp only [if_neg ec]; exact h.mem c' o ho'
  · intro c' o ho
    rw [pcs] at ho; split at ho
    · simp [held] at ho; subst ho; exact Nat.lt_succ_self _
    · exact Nat.lt_succ_of_lt (h.heldLive c' o ho)
  · intro c'
    rw [pcs]; split
    · simp [held]
    · exact h.heldNodup c'
  · intro c' cur o hk
    rw [pcs] at hk; split at hk
    · simp at hk
    · have := h.addOk c' cur o hk; exact ⟨Nat.lt_succ_of_lt this.1, this.2⟩
  · intro j o hm
    rw [regs] at hm
    rcases List.mem_cons.mp hm with e | m
    · injection e with e1 _; subst e1; exact ⟨hic, hip⟩
    · exact h.regIds j o m
  · intro c' j hk
    rw [pcs] at hk; split at hk
    · simp at hk
    · next ec =>
      have := h.pend c' j hk
      refine ⟨this.1, this.2.1, ?_⟩
      rw [regs]; simp only [List.map_cons, List.mem_cons, not_or]
      exact ⟨fun e => ec (h.pendUnique c' c j hk (by rw [e]; exact hpc)), this.2.2⟩
  · intro c1 c2 j h1 h2
    rw [pcs] at h1 h2
    split at h1
    · simp at h1
    · split at h2
      · simp at h2
      · exact h.pendUnique c1 c2 j h1 h2
  · exact h.poolLe
  · show (s.addReg i c).gauge = ((s.addReg i c).reg.length : Int)
    rw [addReg_gauge, hreg, h.gauge]; simp


/-- every critical section of every connection preserves the invariant -/
theorem Inv.step {s : St} (h : Inv s) (c : Nat) (r : Req) (hint : Nat) : Inv (step s c r hint) := by
  unfold Registry.step
  cases hpc : s.pc c with
  | idle cur =>
    simp only
    have hold : ∀ o k, s.pc c ≠ .unreg o k := fun o k => by rw [hpc]; simp
    have hold' : ∀ i, s.pc c ≠ .register i := fun i => by rw [hpc]; simp
    cases r with
    | joinId i =>
      simp only
      have go : ∀ o, lookup s.reg i = some o → o ∉ cur.toList → Inv (s.setPc c (.add cur o)) := fun o hl hnc => by
        have ho := h.regOk i o (lookup_mem hl)
        refine h.retarget (by rw [hpc]; rfl) hold (fun _ _ => by simp) hold' (fun _ => by simp) ?_
        intro cur' o' e
        injection e with e1 e2; subst e1; subst e2
        exact ⟨ho.1, hnc⟩
      cases cur with
      | none =>
        simp only [Bool.false_eq_true, if_false]
        cases hl : lookup s.reg i with
        | none => exact h
        | some o => exact go o hl (by simp)
      | some o' =>
        by_cases hid : ((s.obj o').id == i) = true
        · simp only [hid, if_true]; exact h
        · simp only [hid, if_false]
          cases hl : lookup s.reg i with
          | none => exact h
          | some o =>
            refine go o hl ?_
            simp only [Option.toList, List.mem_singleton]
            intro e; subst e
            have := (h.regOk i o (lookup_mem hl)).2
            simp [this] at hid
    | joinNew =>
      cases cur with
      | none => exact h.retarget (by rw [hpc]; rfl) hold (fun _ _ => by simp) hold' (fun _ => by simp) (fun _ _ e => by simp at e)
      | some o' => exact h.retarget (by rw [hpc]; rfl) hold (fun _ _ => by simp) hold' (fun _ => by simp) (fun _ _ e => by simp at e)
    | disconnect =>
      cases cur with
      | none => exact h
      | some o' => exact h.retarget (by rw [hpc]; rfl) hold (fun _ _ => by simp) hold' (fun _ => by simp) (fun _ _ e => by simp at e)
  | add cur o =>
    simp only
    split
    · exact h.retarget (by rw [hpc]; rfl) (fun _ _ => by rw [hpc]; simp) (fun _ _ => by simp) (fun _ => by rw [hpc]; simp)
        (fun _ => by simp) (fun _ _ e => by simp at e)
    · next hne =>
      have hne' : (s.obj o).ended = false := by simpa using hne
      cases cur with
      | none => exact h.add_ok hpc hne' _ (by simp [held]) (fun _ _ => by simp) (fun _ => by simp) (fun _ _ => by simp)
      | some o' => exact h.add_ok hpc hne' _ (by simp [held, Then.objs]) (fun _ _ => by simp) (fun _ => by simp) (fun _ _ => by simp)
  | rem o k => exact h.rem_ok hpc
  | unreg o k => exact h.unreg_ok hpc
  | newid => exact h.newid_ok hpc hint
  | register i => exact h.register_ok hpc

theorem Inv.run {s : St} (h : Inv s) (ms : List Move) : Inv (run s ms) := by
  induction ms generalizing s with
  | nil => exact h
  | cons m ms ih => exact ih (h.step m.1 m.2.1 m.2.2)

end Hagall.Registry
