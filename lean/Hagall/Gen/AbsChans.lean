import Hagall.Gen.Facts
import Hagall.Model.Types
namespace Hagall.Gen

/-- F1: channel capacities -/
theorem receiptChanCap_eq : receiptChanCap = Hagall.receiptQueueCap := rfl
theorem sendChanSize_eq : sendChanSize = 512 := rfl
theorem disconnectChanCap_eq : disconnectChanCap = 8 := rfl
theorem closeFrameChanCap_eq : closeFrameChanCap = 1 := rfl
end Hagall.Gen
