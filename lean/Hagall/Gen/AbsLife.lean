import Hagall.Gen.Facts
import Hagall.Props.C08
namespace Hagall.Gen

/-- what the life-cycle model (`Model/Life.lean`) assumes of `websocket/handler.go`, read off the current source -/
theorem life_disconnect_chan : disconnectChanCap = Hagall.Life.good.dq := rfl
theorem life_send_chan : sendChanSize = Hagall.Life.good.sq := rfl
/-- `handler.disconnect` never blocks (the model's `report`; finding F6 was a blocking send here) -/
theorem life_report_nonblocking : sends_handler_disconnect = "nonblocking send h.disconnectChan" := rfl
theorem life_model_nonblocking : Hagall.Life.good.blockingReport = false := rfl
end Hagall.Gen
