import Hagall.Gen.Facts
import Hagall.Props.C08
namespace Hagall.Gen

/-- what the life-cycle model (`Model/Life.lean`) assumes of `websocket/handler.go`, read off the current source -/
theorem life_disconnect_chan : disconnectChanCap = Hagall.Life.good.dq := rfl
theorem life_send_chan : sendChanSize = Hagall.Life.good.sq := rfl
/-- `handler.disconnect` never blocks (the model's `report`; finding F6 was a blocking send here) -/
theorem life_report_nonblocking : sends_handler_disconnect = "nonblocking send h.disconnectChan" := rfl
theorem life_model_nonblocking : Hagall.Life.good.blockingReport = false := rfl
/-- what a session calls on each frame is `handler.handleFrame`, which never blocks (the model's `frame` event only marks
    the pump; finding F15 was the scheduler's blocking `HandleFrame` called under the session's frame lock) -/
theorem life_frame_nonblocking : sends_handler_handleFrame = "nonblocking send h.frameChan" := rfl
theorem life_frame_handler_passed : "handleFrame" ∈ fields_handler_handleMessage ∧ "dispatcher" ∉ fields_handler_handleMessage := by decide
theorem life_pump_hands_over : skel_handler_startHandlingFrames = "h.dispatcher.HandleFrame" := rfl
theorem life_model_frame : Hagall.Life.good.frameUnderLock = false := rfl
end Hagall.Gen
