import Hagall.Gen.Facts
import Hagall.Model.Types
namespace Hagall.Gen

/-- F1: signed-latency iteration bounds -/
theorem latencyGuards_eq : latencyIterationGuards = ["< 3", "> 50"] := rfl
theorem latencyBounds_model : Hagall.latencyMinIter = 3 ∧ Hagall.latencyMaxIter = 50 := ⟨rfl, rfl⟩
end Hagall.Gen
