import Hagall.Gen.Facts
import Hagall.Model.Types
namespace Hagall.Gen

/-- F1: the custom-message limit and its guard (`>`: a body of exactly the limit is accepted) -/
theorem customMessageMaxSize_eq : customMessageMaxSize = Hagall.customMessageMaxSize := rfl
theorem customSizeGuard_eq : customSizeGuards = ["len() > customMessageMaxSize"] := rfl
end Hagall.Gen
