/- Obligations about the regenerated facts: feature-flag wiring (F2). -/
import Hagall.Gen.Facts
import Hagall.Model.Types
namespace Hagall.Gen

/-- the ten flag names are the ones the model's message classes carry -/
theorem flagNames_eq : flagNames = [
    ("FlagDisableCustomMessageBroadcast", Hagall.fCustom),
    ("FlagDisableEntityAddBroadcast", Hagall.fEntityAdd),
    ("FlagDisableEntityComponentAddBroadcast", Hagall.fCompAdd),
    ("FlagDisableEntityComponentDeleteBroadcast", Hagall.fCompDelete),
    ("FlagDisableEntityComponentUpdateBroadcast", Hagall.fCompUpdate),
    ("FlagDisableEntityDeleteBroadcast", Hagall.fEntityDelete),
    ("FlagDisableEntityUpdatePoseBroadcast", Hagall.fPose),
    ("FlagDisableParticipantJoinBroadcast", Hagall.fJoin),
    ("FlagDisableParticipantLeaveBroadcast", Hagall.fLeave),
    ("FlagDisableSessionState", Hagall.fSessionState)] := rfl

/-- every `IfNotSet` site of websocket/realtime.go wraps exactly the construction of its own message
    class and nothing that changes state; eleven sites for ten flags (the entity-delete broadcast is sent
    from the delete handler and from `leaveSession`) -/
theorem flagSites_eq : flagSites = [
    ("HandleParticipantJoin", "FlagDisableSessionState", ["hagallpb.SessionState"], []),
    ("HandleParticipantJoin", "FlagDisableParticipantJoinBroadcast", ["hagallpb.ParticipantJoinBroadcast"], []),
    ("HandleEntityAdd", "FlagDisableEntityAddBroadcast", ["hagallpb.EntityAddBroadcast"], []),
    ("HandleEntityDelete", "FlagDisableEntityDeleteBroadcast", ["hagallpb.EntityDeleteBroadcast"], []),
    ("HandleEntityUpdatePose", "FlagDisableEntityUpdatePoseBroadcast", ["hagallpb.EntityUpdatePoseBroadcast"], []),
    ("HandleCustomMessage", "FlagDisableCustomMessageBroadcast", ["hagallpb.CustomMessageBroadcast"], []),
    ("HandleEntityComponentAdd", "FlagDisableEntityComponentAddBroadcast", ["hagallpb.EntityComponentAddBroadcast"], []),
    ("HandleEntityComponentDelete", "FlagDisableEntityComponentDeleteBroadcast", ["hagallpb.EntityComponentDeleteBroadcast"], []),
    ("HandleEntityComponentUpdate", "FlagDisableEntityComponentUpdateBroadcast", ["hagallpb.EntityComponentUpdateBroadcast"], []),
    ("leaveSession", "FlagDisableEntityDeleteBroadcast", ["hagallpb.EntityDeleteBroadcast"], []),
    ("leaveSession", "FlagDisableParticipantLeaveBroadcast", ["hagallpb.ParticipantLeaveBroadcast"], [])] := rfl

/-- no broadcast of the core handlers escapes the flags, and the modules do not consult flags -/
theorem ungatedBroadcasts_eq : ungatedBroadcasts = [] := rfl
theorem moduleFlagUses_eq : moduleFlagUses = 0 := rfl

end Hagall.Gen
