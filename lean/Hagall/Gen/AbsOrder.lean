import Hagall.Gen.Facts
/-
  What the Layer C models (`Model/Registry`, `Attach`, `Handover`, `Relay`, `Notify`, `Props/C16Conc`) assume of the code,
  computed on the facts regenerated from the current source - not compared with a reference copy: the order of the calls
  inside the handlers that makes each model's transitions the code's critical sections, and the lock each critical
  section holds.  A change of `/repo` that breaks one of these assumptions breaks the theorem here, whatever happens to
  `Gen/Expected.lean`.
-/
namespace Hagall.Gen.Order

/-- position of the first / last occurrence of a call in a handler's sequence of calls -/
def first (l : List String) (a : String) : Option Nat := l.findIdx? (· == a)
def last (l : List String) (a : String) : Option Nat := (l.reverse.findIdx? (· == a)).map fun i => l.length - 1 - i

/-- `a` is called, and its first call comes before the last call of `b` -/
def before (l : List String) (a b : String) : Bool :=
  match first l a, last l b with
  | some i, some j => i < j
  | _, _ => false

/-- `a`'s first call, then `b`, then `a` again, then `c`: look, act, look again, undo -/
def lookActLook (l : List String) (a b c : String) : Bool :=
  match first l a, first l b, last l a, last l c with
  | some i, some j, some k, some m => i < j && j < k && k < m
  | _, _, _, _ => false

/-! ### the registry (`Model/Registry`, F20) -/

/-- a connection takes its place in the session it joins before it leaves the one it is in -/
theorem registry_place_before_leaving :
    before calls_in_RealtimeHandler_HandleParticipantJoin "session.AddParticipant" "h.leaveSession" = true := by decide
/-- a new session is registered holding its creator -/
theorem registry_creator_before_registration :
    (match last calls_in_RealtimeHandler_HandleParticipantJoin "session.AddParticipant", first calls_in_RealtimeHandler_HandleParticipantJoin "h.Sessions.Add" with
     | some i, some j => decide (i < j) | _, _ => false) = true := by decide
/-- the session is unregistered after, and only through, the removal that reports "last" -/
theorem registry_remove_then_unregister :
    before calls_in_RealtimeHandler_leaveSession "session.RemoveParticipant" "h.Sessions.Remove" = true := by decide
theorem registry_critical_sections :
    locks_Session_AddParticipant = ["participantMutex.Lock", "defer participantMutex.Unlock"] ∧
    locks_Session_RemoveParticipant = ["participantMutex.Lock", "defer participantMutex.Unlock"] ∧
    writes_Session_RemoveParticipant = ["ended", "participants"] ∧
    locks_SequentialIDGenerator_New = ["mutex.Lock", "defer mutex.Unlock"] ∧
    locks_SequentialIDGenerator_Reuse = ["mutex.Lock", "defer mutex.Unlock"] := by decide

/-! ### what is attached to an entity (`Model/Attach`, F21 / F24; `Model/Handover`, F23) -/

/-- the entity leaves the session before what is attached to it is released: components at once, module state after the
    loop over the leaver's entities -/
theorem attach_entity_removed_first :
    before calls_in_RealtimeHandler_leaveSession "session.RemoveEntity" "session.GetEntityComponents().DeleteByEntityID" = true ∧
    before calls_in_RealtimeHandler_leaveSession "session.RemoveEntity" "m.HandleDisconnect" = true ∧
    before calls_in_RealtimeHandler_HandleEntityDelete "session.RemoveEntity" "session.GetEntityComponents().DeleteByEntityID" = true := by decide
/-- who attaches looks the entity up, stores, looks again, and takes back -/
theorem attach_adder_looks_again :
    lookActLook calls_in_RealtimeHandler_HandleEntityComponentAdd "session.EntityByID" "session.GetEntityComponents().Add"
      "session.GetEntityComponents().Delete" = true ∧
    lookActLook calls_in_vikja_handleSetEntityAction "session.EntityByID" "m.state.SetEntityActionIfLatest" "m.state.RemoveEntityActions" = true := by decide
/-- the modules hand a newcomer only what belongs to entities that are in the session -/
theorem handover_filters_by_entity :
    calls_in_vikja_handleParticipantJoin.contains "m.currentSession.EntityByID" = true ∧
    calls_in_odal_handleParticipantJoin.contains "m.currentSession.EntityByID" = true := by decide

/-! ### relays and notifications (`Model/Relay`, F22; `Model/Notify`) -/

/-- a relay looks its recipients up and hands the message over under the participants read lock, held to the end -/
theorem relay_is_one_critical_section :
    locks_Session_Broadcast = ["participantMutex.RLock", "defer participantMutex.RUnlock"] ∧
    locks_Session_BroadcastTo = ["participantMutex.RLock", "defer participantMutex.RUnlock"] ∧
    calls_Session_Broadcast.contains "p.Responder.SendMsg" = true ∧ calls_Session_BroadcastTo.contains "p.Responder.SendMsg" = true := by decide
/-- a notification reads the subscribers and runs the relay under the subscription read lock, held to the end;
    subscribing and unsubscribing take it in write mode -/
theorem notify_is_one_critical_section :
    locks_EntityComponentStore_Notify = ["subscriptionMutex.RLock", "defer subscriptionMutex.RUnlock"] ∧
    calls_EntityComponentStore_Notify.contains "h" = true ∧
    locks_EntityComponentStore_Subscribe.contains "subscriptionMutex.Lock" = true ∧
    locks_EntityComponentStore_Unsubscribe.contains "subscriptionMutex.Lock" = true ∧
    locks_EntityComponentStore_UnsubscribeByParticipant.contains "subscriptionMutex.Lock" = true := by decide

/-! ### the latest action (`Props/C16Conc`, F25) -/

/-- the handler compares and stores in one call, and that call is one critical section under the write lock -/
theorem action_compare_and_store_is_one_step :
    calls_in_vikja_handleSetEntityAction.contains "m.state.SetEntityActionIfLatest" = true ∧
    calls_in_vikja_handleSetEntityAction.contains "m.state.SetEntityAction" = false ∧
    calls_in_vikja_handleSetEntityAction.contains "m.state.EntityAction" = false ∧
    locks_vikja_State_SetEntityActionIfLatest = ["entityActionMutex.Lock", "defer entityActionMutex.Unlock"] ∧
    writes_vikja_State_SetEntityActionIfLatest = ["entityActions"] := by decide

/-! ### the state handed to a newcomer (`Model/Newcomer`, `Props/C01New`, F32) -/

/-- the newcomer takes its place first; the session state, and each module's, is read after `Session.Exclusive` is
    entered (the call sequence is flat: that the reads sit inside the closure is what the exploration of the real
    handlers and the corpus schedule of F32 check); `Exclusive` holds the participants lock in write mode to the end, a
    relay holds it in read mode to the end (`relay_is_one_critical_section`) -/
theorem newcomer_state_is_one_critical_section :
    locks_Session_Exclusive = ["participantMutex.Lock", "defer participantMutex.Unlock"] ∧
    calls_Session_Exclusive.contains "f" = true ∧
    before calls_in_RealtimeHandler_HandleParticipantJoin "session.AddParticipant" "session.Exclusive" = true ∧
    before calls_in_RealtimeHandler_HandleParticipantJoin "session.Entities" "session.Exclusive" = false ∧
    before calls_in_RealtimeHandler_HandleParticipantJoin "session.GetEntityComponents().ListAll" "session.Exclusive" = false ∧
    first calls_in_vikja_handleParticipantJoin "m.currentSession.Exclusive" = some 0 ∧
    first calls_in_odal_handleParticipantJoin "m.currentSession.Exclusive" = some 0 := by decide

/-! ### the clean-up of a refused delete request (`Model/Premature`, `Props/C05Premature`, F46) -/

/-- the modules' clean-up on a delete request looks the entity up inside the critical section that removes: the handler
    calls the removing method and nothing that removes without it; the method holds the module state's lock in write
    mode to the end and calls the look-up it is given (`keep`) before `delete` -/
theorem cleanup_looks_up_under_the_state_lock :
    first calls_in_odal_handleEntityDelete "m.state.RemoveAssetInstanceUnless" = some 0 ∧
    calls_in_odal_handleEntityDelete.contains "m.state.RemoveAssetInstance" = false ∧
    first calls_in_vikja_handleEntityDelete "m.state.RemoveEntityActionsUnless" = some 0 ∧
    calls_in_vikja_handleEntityDelete.contains "m.state.RemoveEntityActions" = false ∧
    locks_odal_State_RemoveAssetInstanceUnless = ["assetMutex.Lock", "defer assetMutex.Unlock"] ∧
    locks_vikja_State_RemoveEntityActionsUnless = ["entityActionMutex.Lock", "defer entityActionMutex.Unlock"] ∧
    before calls_odal_State_RemoveAssetInstanceUnless "keep" "delete" = true ∧
    before calls_vikja_State_RemoveEntityActionsUnless "keep" "delete" = true := by decide

/-! ### one key of the component store (`Model/AddOnce`, `Props/C12Add`) -/

/-- `Add` and `Delete` look the key up and change the map under one write lock held to the end; no other method of the
    store that writes the map does so under less -/
theorem component_add_is_one_critical_section :
    locks_EntityComponentStore_Add = ["mutex.Lock", "defer mutex.Unlock"] ∧
    locks_EntityComponentStore_Delete = ["mutex.Lock", "defer mutex.Unlock"] ∧
    writes_EntityComponentStore_Add = ["entityComponents"] ∧ writes_EntityComponentStore_Delete = ["entityComponents"] ∧
    calls_in_RealtimeHandler_HandleEntityComponentAdd.contains "session.GetEntityComponents().Add" = true ∧
    calls_in_RealtimeHandler_HandleEntityComponentDelete.contains "session.GetEntityComponents().Delete" = true := by decide

end Hagall.Gen.Order
