/- Obligations about the regenerated facts: the dispatch table of handler.handleMessage (F5). -/
import Hagall.Gen.Facts
namespace Hagall.Gen

theorem dispatch_eq : dispatch = [
    ("PING_REQUEST", "HandlePing"), ("PING_RESPONSE", "HandlePingResponse"),
    ("SIGNED_LATENCY_REQUEST", "HandleSignedLatency"), ("PARTICIPANT_JOIN_REQUEST", "HandleParticipantJoin"),
    ("ENTITY_ADD_REQUEST", "HandleEntityAdd"), ("ENTITY_DELETE_REQUEST", "HandleEntityDelete"),
    ("ENTITY_UPDATE_POSE", "HandleEntityUpdatePose"), ("CUSTOM_MESSAGE", "HandleCustomMessage"),
    ("ENTITY_COMPONENT_TYPE_ADD_REQUEST", "HandleEntityComponentTypeAdd"),
    ("ENTITY_COMPONENT_TYPE_GET_NAME_REQUEST", "HandleEntityComponentGetName"),
    ("ENTITY_COMPONENT_TYPE_GET_ID_REQUEST", "HandleEntityComponentGetID"),
    ("ENTITY_COMPONENT_ADD_REQUEST", "HandleEntityComponentAdd"),
    ("ENTITY_COMPONENT_DELETE_REQUEST", "HandleEntityComponentDelete"),
    ("ENTITY_COMPONENT_LIST_REQUEST", "HandleEntityComponentList"),
    ("ENTITY_COMPONENT_UPDATE", "HandleEntityComponentUpdate"),
    ("ENTITY_COMPONENT_TYPE_SUBSCRIBE_REQUEST", "HandleEntityComponentSubscribe"),
    ("ENTITY_COMPONENT_TYPE_UNSUBSCRIBE_REQUEST", "HandleEntityComponentUnsubscribe"),
    ("RECEIPT_REQUEST", "HandleReceipt")] := rfl

end Hagall.Gen
