import Hagall.Model.Types
import Hagall.Model.Session
import Hagall.Model.Server
import Hagall.Model.Wire
import Hagall.Spec.Trace
import Hagall.Spec.Monitors
