/-
  Line-protocol driver. Reads implementation traces (written by go/cmd/drive) on stdin and, for every
  history,
    1. replays the events through the model's `step` and compares deliveries, outcome and registry
       state event by event (the correspondence);
    2. evaluates the property monitors of `Hagall.Spec.Monitors` on the implementation's own trace.
  Output: one `R` line per history (ok | diff ...) and one `M` line per monitor violation.
-/
import Hagall.Spec.RegistryExplore
import Hagall.Spec.Monitors
import Hagall.Model.Latency
import Hagall.Model.Auth
import Hagall.Model.Receipt
import Hagall.Model.GridReplay
import Hagall.Spec.Views
open Hagall Hagall.Wire

structure Block where
  ev : List String := []
  ds : List Delivery := []
  bad : List String := []        -- delivery lines that did not parse
  sessions : List Nat := []
  gauge : Int := 0
  extra : List String := []
  quies : Option (List (Nat × Nat × Bool) × List (Nat × Nat)) := none
  ghost : List (Nat × List String) := []   -- the implementation's state of every registered session after the event
deriving Inhabited

structure Hist where
  idx : Nat := 0
  header : String := ""
  cfg : Cfg := {}
  srv : Server := {}
  steps : Array IStep := #[]
  vsteps : Array IStep := #[]      -- what the view monitor is fed (it survives concurrent blocks no serial order explains)
  extras : Array (Nat × String) := #[]
  nEvents : Nat := 0
  nDeliv : Nat := 0
  diff : Option String := none     -- first correspondence difference
  blind : Bool := false            -- a concurrent block could not be explained: the monitors' reference picture is lost
  concViol : Array (String × String × String) := #[]   -- (property, cause, detail) found while judging concurrent blocks
  concBlocks : Nat := 0
  concOdd : Nat := 0               -- blocks whose outcome no serial order of the requests explains
  note : Option String := none
  regChecked : Nat := 0             -- join-only blocks whose outcome was compared with the concurrent registry model
  concMembers : Option (List (Nat × Nat)) := none   -- (connection, session number) right after a concurrent block, until the next event that is not a tick
deriving Inhabited

def parseHeader (toks : List String) : Nat × Cfg :=
  let idx := (toks[1]?.bind String.toNat?).getD 0
  let kv (k : String) : Option String :=
    toks.findSome? fun t => if t.startsWith (k ++ "=") then some (t.drop (k.length + 1)).toString else none
  let flags := match kv "flags" with
    | some "-" | none => []
    | some s => s.splitOn ","
  let mods := (kv "mods").getD "vod"
  let rcap := ((kv "rcap").bind String.toNat?).getD 128
  (idx, { flags, vikja := mods.contains 'v', odal := mods.contains 'o', dagaz := mods.contains 'd', rcap })

def parseEvent (toks : List String) : Option IEv :=
  match toks with
  | ["connect", c] => c.toNat?.map .connect
  | "recv" :: c :: rest => do
    let c ← c.toNat?
    let r ← parseAll req rest
    pure (.recv c r)
  | ["handle", c, h, "none"] => do pure (.handle (← c.toNat?) none (← h.toNat?))
  | "handle" :: c :: h :: rest => do
    let r ← parseAll req rest
    pure (.handle (← c.toNat?) (some r) (← h.toNat?))
  | ["tick", s] => s.toNat?.map .tick
  | ["disconnect", c] => c.toNat?.map .disconnect
  | ["drain"] => some .drain
  | _ => none

def parseOutcome (toks : List String) : Outcome :=
  match toks with
  | "ok" :: _ => .ok
  | "connerr" :: _ => .connError
  | "panic" :: rest => .panic (" ".intercalate rest)
  | _ => .panic "unparsed-outcome"

def sameOutcome : Outcome → Outcome → Bool
  | .ok, .ok => true
  | .connError, .connError => true
  | .panic _, .panic _ => true
  | _, _ => false

def reqKind (r : Req) : String :=
  ((reprStr r).splitOn " ").head!.replace "Hagall.Req." ""

def evTopic : IEv → String
  | .connect _ => "connect"
  | .recv _ r => "recv:" ++ reqKind r
  | .handle _ (some r) _ => reqKind r
  | .handle _ none _ => "none"
  | .tick _ => "tick"
  | .disconnect _ => "disconnect"
  | .drain => "drain"
  | .conc _ => "conc"

/-- translate a harness event into a model event, resolving which queued message was consumed -/
def toModelEvent (srv : Server) : IEv → Except String Event
  | .connect c => .ok (.connect c)
  | .recv c r => .ok (.recv c r)
  | .tick s => .ok (.tick s)
  | .disconnect c => .ok (.disconnect c)
  | .drain => .ok .drain
  | .conc _ => .error "a concurrent block is not one model event"
  | .handle c none hint =>
    match srv.findConn c with
    | none => .ok (.handle c 0 hint)
    | some k => if k.queue.isEmpty then .ok (.handle c 0 hint)
                else .error s!"implementation queue empty, model queue has {k.queue.length} message(s)"
  | .handle c (some r) hint =>
    match srv.findConn c with
    | none => .error "implementation consumed a message on a connection the model has closed"
    | some k =>
      match (headGroup k.queue).findIdx? (·.req == r) with
      | some i => .ok (.handle c i hint)
      | none => .error s!"consumed message is not at the head of the model queue (head: {reprStr (k.queue.head?.map (·.req))})"

def outKind (o : Out) : String :=
  ((reprStr o).splitOn " ").head!.replace "Hagall.Out." ""

def evActor : IEv → Nat
  | .connect c | .recv c _ | .handle c _ _ | .disconnect c => c
  | _ => 0

/-- constructor names of the messages present on one side only -/
def diffKinds (a b : List Out) : List String :=
  ((a.filter fun x => !b.any (·.sameAs x)) ++ (b.filter fun x => !a.any (·.sameAs x))).map outKind |>.eraseDups

def sortNat (l : List Nat) : List Nat := (l.toArray.qsort (· < ·)).toList

/-! ### state correspondence: after every event the implementation's state of every registered session is the model's -/

/-- first difference between the implementation's state lines and the model: (component, detail) -/
def ghostDiff (srv : Server) (gs : List (Nat × List String)) : Option (String × String) :=
  gs.findSome? fun (g : Nat × List String) =>
    let (sid, toks) := g
    match srv.sessions.find? (·.id == sid) with
    | none => some ("session", s!"session {sid}: the implementation holds state for a session the model does not have")
    | some s =>
      match toks with
      | "reg" :: pc :: ec :: tc :: ac :: subs :: types :: _ =>
        let counters := [pc, ec, tc, ac].filterMap String.toNat?
        let unpack (t : String) : List String := if t == "-" then [] else t.splitOn ","
        let subsM := s.subs.map fun (x : Nat × Nat) => s!"{x.1}:{x.2}"
        let typesI := (unpack types).filterMap fun (t : String) =>
          match t.splitOn ":" with
          | [a, b] => match a.toNat?, parseAll str [b] with | some a, some b => some (a, b) | _, _ => none
          | _ => none
        if counters != [s.pidCur, s.eidCur, s.tidCur, s.assetCur] then
          some ("counters", s!"session {sid}: id counters (participant, entity, type, asset) model {[s.pidCur, s.eidCur, s.tidCur, s.assetCur]} implementation {counters}")
        else if !(subsM.isPerm (unpack subs)) then
          some ("subs", s!"session {sid}: subscriptions (type:participant) model {subsM} implementation {unpack subs}")
        else if !(s.types.isPerm typesI) then
          some ("types", s!"session {sid}: component types model {s.types} implementation {typesI}")
        else none
      | _ =>
        match parseAll out toks with
        | none => some ("parse", s!"session {sid}: unparseable state line {toks}")
        | some o =>
          match o with
          | .sessionState p e c =>
            let m := Out.sessionState s.pids (s.ents.map Entity.view) s.comps
            if m.sameAs o then none
            else if !(s.comps.isPerm c) then some ("comps", s!"session {sid}: components model {reprStr s.comps} implementation {reprStr c}")
            else if !(s.pids.isPerm p) then some ("parts", s!"session {sid}: participants model {s.pids} implementation {p}")
            else some ("ents", s!"session {sid}: entities model {reprStr (s.ents.map Entity.view)} implementation {reprStr e}")
          | .vikjaState a =>
            if (Out.vikjaState s.actions).sameAs o then none
            else some ("actions", s!"session {sid}: entity actions model {reprStr s.actions} implementation {reprStr a}")
          | .odalState a =>
            if (Out.odalState s.assets).sameAs o then none
            else some ("assets", s!"session {sid}: asset instances model {reprStr s.assets} implementation {reprStr a}")
          | _ => none

/-- which properties a state difference after this event is a failing input of -/
def ghostBlame (flags : List String) (iev : IEv) (ds : List Delivery) (outcome : Outcome) (what : String) : List (String × String) :=
  let actor := evActor iev
  -- the broadcast switches that bear on this event: such a switch may silence a relay, never change what is stored
  let switches : List String := match iev with
    | .disconnect _ => ["PARTICIPANT_LEAVE", "ENTITY_DELETE"]
    | .handle _ (some (.join ..)) _ => ["PARTICIPANT_JOIN", "PARTICIPANT_LEAVE", "ENTITY_DELETE", "SESSION_STATE"]
    | .handle _ (some (.entityAdd ..)) _ => ["ENTITY_ADD"]
    | .handle _ (some (.entityDelete ..)) _ => ["ENTITY_DELETE"]
    | .handle _ (some (.updatePose ..)) _ => ["ENTITY_UPDATE_POSE"]
    | .handle _ (some (.compAdd ..)) _ => ["ENTITY_COMPONENT_ADD"]
    | .handle _ (some (.compDelete ..)) _ => ["ENTITY_COMPONENT_DELETE"]
    | .handle _ (some (.compUpdate ..)) _ => ["ENTITY_COMPONENT_UPDATE"]
    | _ => []
  let switched := flags.any fun f => switches.any fun (w : String) => (f.splitOn w).length > 1
  let refused := ds.any fun (d : Delivery) => d.1 == actor && (match d.2 with | .error .. => true | _ => false)
  let foreignAttempt := match iev with
    | .handle _ (some (.entityDelete ..)) _ | .handle _ (some (.updatePose ..)) _ | .handle _ (some (.assetAdd ..)) _ => true
    | _ => false
  let departure := match iev, outcome with
    | .disconnect _, _ => true
    | .handle _ (some (.join ..)) _, _ => true
    | .handle .., .connError => true
    | .recv .., .connError => true
    | _, _ => false
  (if what == "comps" || what == "parts" || what == "ents" || what == "actions" || what == "assets" then
    [("C01", "newcomer-would-be-handed-another-state")] else []) ++
  (if refused && !departure then [("C04", "refused-request-changed-state")] else []) ++
  (if refused && !departure && foreignAttempt then [("C05", "refused-request-changed-state")] else []) ++
  (if what == "assets" && (match iev with | .handle _ (some (.assetAdd ..)) _ => true | _ => false) then
    [("C05", "asset-instance-not-where-its-owner-put-it")] else []) ++
  (if foreignAttempt && !departure && (what == "ents" || what == "assets") then [("C05", "foreign-request-changed-state")] else []) ++
  (if what == "parts" then [("C08", "ghost-participant")] else []) ++
  (if departure then [("C06", "departure-state-differs")] else []) ++
  (if what == "subs" then [("C13", "subscriptions-differ")] else []) ++
  (if what == "comps" || what == "types" then [("C12", "component-store-differs")] else []) ++
  (if what == "actions" || what == "assets" then [("C16", "module-state-differs")] else []) ++
  (if what == "counters" then [("C10", "id-counter-differs")] else []) ++
  (if switched && what != "counters" then [("C17", "state-differs-under-a-broadcast-switch")] else [])

def processBlock (h : Hist) (b : Block) (outcome : Outcome) : Hist :=
  -- the frames that follow a concurrent block at once: each reaches exactly the connections of the session's members
  -- (judged on the membership the implementation itself reports, so also when no serial order explained the block)
  let h := match h.concMembers, b.ev with
    | some ms, ["tick", sid] =>
      match sid.toNat? with
      | none => h
      | some sid =>
        let pumped := b.extra.filterMap fun (x : String) => match x.splitOn " " with | ["pumped", c] => c.toNat? | _ => none
        let members := ms.filterMap fun (m : Nat × Nat) => if m.2 == sid then some m.1 else none
        let missed := members.filter fun c => !pumped.contains c
        let strangers := pumped.filter fun c => !members.contains c
        let h := if missed.isEmpty then h else
          let d1 := s!"after the concurrent block the frame of session {sid} did not reach the connections {missed} of its members (members' connections {members}, reached {pumped})"
          let d2 := s!"after the concurrent block the frame handlers of session {sid} are not those of its members: connections {missed} are members and are not reached (reached {pumped})"
          { h with concViol := (h.concViol.push ("C11", "frame-does-not-reach-member", d1)).push ("C09", "frame-registry-corrupted", d2) }
        if strangers.isEmpty then h else
          { h with concViol := h.concViol.push ("C03", "frame-of-another-session-reaches-connection",
              s!"after the concurrent block the frame of session {sid} drove connections {strangers}, which are not in it (members' connections {members})") }
    | some _, _ => { h with concMembers := none }
    | none, _ => h
  let evNo := h.nEvents
  let h := { h with nEvents := h.nEvents + 1, nDeliv := h.nDeliv + b.ds.length,
                    extras := b.extra.foldl (fun a x => a.push (evNo, x)) h.extras }
  match parseEvent b.ev with
  | none => { h with diff := h.diff <|> some s!"event={evNo} kind=parse topic=? :: cannot parse event {b.ev}" }
  | some iev =>
    let h := { h with vsteps := h.vsteps.push ⟨iev, b.ds, outcome, b.sessions, b.gauge, b.extra⟩ }
    let h := if h.blind then h else { h with steps := h.steps.push ⟨iev, b.ds, outcome, b.sessions, b.gauge, b.extra⟩ }
    if h.diff.isSome || h.blind then h else
    let topic := evTopic iev
    if !b.bad.isEmpty then
      { h with diff := some s!"event={evNo} kind=parse topic={topic} :: unparseable delivery {b.bad}" }
    else
    match toModelEvent h.srv iev with
    | .error msg => { h with diff := some s!"event={evNo} kind=pop topic={topic} :: {msg}" }
    | .ok ev =>
      let (srv', ds, o) := step h.cfg h.srv ev
      let h := { h with srv := srv' }
      if !sameOutcome o outcome then
        { h with diff := some s!"event={evNo} kind=outcome topic={topic} :: model {reprStr o} implementation {reprStr outcome}" }
      else match diffDeliveries ds b.ds with
      | some c =>
        -- what the requester itself is answered (not a join: the state handed over belongs to C01) is C04's subject
        -- ... and so is a join that the protocol refuses and the server grants, or the other way round
        let refusal (l : List Out) : Bool := l.any fun (o : Out) => match o with | .error .. => true | _ => false
        let granted (l : List Out) : Bool := l.any fun (o : Out) => match o with | .joinResp .. => true | _ => false
        let joinFlip := c == evActor iev && (match iev with | .handle _ (some (.join ..)) _ => true | _ => false) &&
          (refusal (inboxOf c ds) != refusal (inboxOf c b.ds) || granted (inboxOf c ds) != granted (inboxOf c b.ds))
        let own := joinFlip || c == evActor iev && (match iev with | .handle _ (some (.join ..)) _ => false | .handle _ (some _) _ => true | _ => false)
        let viol := if own then h.concViol.push ("C04", "answer-differs-from-protocol",
            s!"event {evNo} ({" ".intercalate (b.ev.take 8)}): the protocol answers {reprStr (inboxOf c ds)}, the server answered {reprStr (inboxOf c b.ds)}") else h.concViol
        { h with concViol := viol, diff := some s!"event={evNo} kind=delivery topic={topic} conn={c} actor={evActor iev} outs={",".intercalate (diffKinds (inboxOf c ds) (inboxOf c b.ds))} :: model {reprStr (inboxOf c ds)} implementation {reprStr (inboxOf c b.ds)}" }
      | none =>
        let ms := sortNat (srv'.sessions.map (·.id))
        if ms != b.sessions then
          { h with diff := some s!"event={evNo} kind=state topic={topic} :: model sessions {ms} implementation {b.sessions}" }
        else if srv'.gauge != b.gauge then
          { h with diff := some s!"event={evNo} kind=gauge topic={topic} :: model {srv'.gauge} implementation {b.gauge}" }
        else if let some g := b.extra.find? (·.startsWith "gaugekeys ") then
          -- the session gauge is kept per application: each label counts the registered sessions created under it
          { h with diff := some s!"event={evNo} kind=gauge topic={topic} :: per application {g}",
                   concViol := h.concViol.push ("C07", "session-gauge-off", s!"after event {evNo} ({" ".intercalate (b.ev.take 6)}) the session gauge of an application differs from the number of its registered sessions: {g}") }
        else match ghostDiff srv' b.ghost with
          | none => h
          | some (what, detail) =>
            let d := s!"after event {evNo} ({" ".intercalate (b.ev.take 6)}) {detail}"
            { h with diff := some s!"event={evNo} kind=ghost-{what} topic={topic} :: {detail}",
                     concViol := (ghostBlame h.cfg.flags iev b.ds outcome what).foldl (fun (v : Array (String × String × String)) (x : String × String) => v.push (x.1, x.2, d)) h.concViol }

/-! ### concurrent blocks: the implementation must behave like some serial order of the same requests on the model -/

def splitBar (toks : List String) : List (List String) :=
  toks.foldl (fun (acc : List (List String)) t =>
    if t == "|" then acc ++ [[]] else
    match acc.reverse with
    | last :: rest => rest.reverse ++ [last ++ [t]]
    | [] => [[t]]) [[]]

/-- how a connection that goes away appears among the tasks of a concurrent block (no client message has this type) -/
def hangup : Req := .unknown 4294967295

/-- `conc n sched=.. | c req.. | c req..`: the tasks (connection, consumed request) -/
def parseConc (toks : List String) : Option (List (Nat × Option Req)) :=
  match splitBar toks with
  | _ :: tasks =>
    tasks.mapM fun t =>
      match t with
      | [c, "none"] => c.toNat?.map fun c => (c, none)
      | [c, "hangup"] => c.toNat?.map fun c => (c, some hangup)   -- the connection goes away instead of handling a message
      | c :: rest => do
        let c ← c.toNat?
        let r ← parseAll req rest
        pure (c, some r)
      | [] => none
  | [] => none

/-- the serial orders of a block of at most three requests -/
def perms3 {α : Type} : List α → List (List α)
  | [a, b] => [[a, b], [b, a]]
  | [a, b, c] => [[a, b, c], [a, c, b], [b, a, c], [b, c, a], [c, a, b], [c, b, a]]
  | l => [l]

/-- the hint a task's own deliveries carry (session id created, ping id issued) -/
def hintOf (c : Nat) (ds : List Delivery) : Nat :=
  ((inboxOf c ds).findSome? fun o => match o with
    | .joinResp _ sid _ _ => some sid
    | .pingReq id => some id
    | _ => none).getD 0

/-- run the tasks serially in the given order on the model -/
def serialRun (cfg : Cfg) (srv : Server) (ds : List Delivery) (order : List (Nat × Option Req)) :
    Except String (Server × List (IEv × List Delivery × Outcome)) :=
  order.foldlM (fun (acc : Server × List (IEv × List Delivery × Outcome)) (t : Nat × Option Req) =>
    let (srv, steps) := acc
    let iev := if t.2 == some hangup then IEv.disconnect t.1 else IEv.handle t.1 t.2 (hintOf t.1 ds)
    match toModelEvent srv iev with
    | .error m => .error m
    | .ok ev =>
      let (srv', out, o) := step cfg srv ev
      .ok (srv', steps ++ [(iev, out, o)])) (srv, [])

def outcomeTok : Outcome → String
  | .ok => "ok" | .connError => "connerr" | .panic _ => "panic"

def processConc (h : Hist) (b : Block) (otoks : List String) : Hist :=
  let evNo := h.nEvents
  let h := { h with nEvents := h.nEvents + 1, nDeliv := h.nDeliv + b.ds.length, concBlocks := h.concBlocks + 1 }
  if h.diff.isSome then h else
  match otoks with
  | "deadlock" :: rest =>
    { h with blind := true, diff := some s!"event={evNo} kind=deadlock topic=conc :: {b.ev} outcomes {rest}",
             concViol := (h.concViol.push ("C09", "deadlock", (" ".intercalate b.ev) ++ " :: tasks " ++ " ".intercalate rest)).push
               ("C08", "request-never-completes", (" ".intercalate b.ev) ++ " :: the handlers wait for each other for ever: " ++ " ".intercalate rest) }
  | _ =>
  -- C07 at the quiescent moment after the block, whatever else is found out about it
  let cm : Option (List (Nat × Nat)) := b.quies.map fun (q : List (Nat × Nat × Bool) × List (Nat × Nat)) =>
    q.1.filterMap fun (m : Nat × Nat × Bool) => if m.2.2 then some (m.1, m.2.1) else none
  let h := { h with concMembers := cm }
  let h := match b.quies with
    | none => h
    | some (members, counts) =>
      let h := (Spec.quiescentRegistry members counts b.gauge).foldl (fun (h : Hist) (v : String × String) =>
        { h with concViol := h.concViol.push ("C07", v.1, (" ".intercalate b.ev) ++ " :: " ++ v.2) }) h
      -- C03: a session created within the block that is already out of the registry was taken out by the end of
      -- another session (the earlier holder of its number): traffic of outsiders changed its state
      let created := (parseConc b.ev).getD [] |>.filterMap fun (t : Nat × Option Req) =>
        match t.2 with | some (.join _ _ .new) => some t.1 | _ => none
      let erased := members.filter fun (m : Nat × Nat × Bool) => !m.2.2 && created.contains m.1
      let h := if erased.isEmpty then h else
        { h with concViol := h.concViol.push ("C03", "ended-session-takes-its-successor-down",
            (" ".intercalate b.ev) ++ s!" :: connections {erased.map Prod.fst} created sessions numbered {erased.map fun (m : Nat × Nat × Bool) => m.2.1} in this block and these are no longer registered: the end of the earlier session with that number removed them") }
      -- C10: a connection living in a session that is not the one registered under the same number
      let twins := members.filter fun (m : Nat × Nat × Bool) => !m.2.2 && counts.any fun (c : Nat × Nat) => c.1 == m.2.1
      if twins.isEmpty then h else
        { h with concViol := h.concViol.push ("C10", "live-sessions-share-an-id",
            (" ".intercalate b.ev) ++ s!" :: connections {twins.map Prod.fst} live in sessions numbered {twins.map fun (m : Nat × Nat × Bool) => m.2.1}, and other sessions are registered under the same numbers") }
  -- Layer C correspondence for the registry: when every request of the block is a join, the outcome must be one the
  -- proved concurrent model reaches from the same state under some interleaving of its critical sections
  let h := match parseConc b.ev, b.quies with
    | some tasks, some (members, counts) =>
      let rtasks := tasks.filterMap fun (t : Nat × Option Req) =>
        match t.2 with
        | some (.join _ _ .new) => some (t.1, Registry.Req.joinNew)
        | some (.join _ _ (.id n)) => some (t.1, Registry.Req.joinId n)
        | some (.join _ _ .bogus) => some (t.1, Registry.Req.joinId 1000000007)
        | some (.unknown 4294967295) => some (t.1, Registry.Req.disconnect)
        | _ => none
      if h.blind || rtasks.length != tasks.length then h else
      let outs := Registry.explore rtasks (Registry.fromServer h.srv)
      let impl : Registry.Outcome :=
        { where_ := rtasks.map fun (t : Nat × Registry.Req) =>
            (t.1, (members.find? fun (m : Nat × Nat × Bool) => m.1 == t.1).map fun (m : Nat × Nat × Bool) => (m.2.1, m.2.2)),
          registered := Registry.sortNats (counts.map Prod.fst), gauge := b.gauge }
      if outs.contains impl then { h with regChecked := h.regChecked + 1 } else
        { h with regChecked := h.regChecked + 1,
                 concViol := h.concViol.push ("C07", "registry-model-unreachable",
                   (" ".intercalate b.ev) ++ s!" :: the handlers ended in {reprStr impl}; the model of the registry's critical sections reaches, from the same state, only {reprStr outs}") }
    | _, _ => h
  -- C10 / C01 under concurrency: every member works on its session's module states (two participants initialising the
  -- module of one session at once must end up with the same state)
  let h := (b.extra.filterMap fun (x : String) => match x.splitOn " " with | ["splitstate", c, name] => some (c, name) | _ => none).eraseDups.foldl
    (fun (h : Hist) (cn : String × String) =>
      let d := flatS s!"{" ".intercalate b.ev} :: the {cn.2} module of connection {cn.1} holds a state of its own, not the one of its session"
      let also := if cn.2 == "dagaz" then "C20" else "C09"
      let v := (((h.concViol.push ("C01", "module-state-split", d)).push ("C10", "module-state-split", d)).push ("C16", "module-state-split", d)).push (also, "module-state-split", d)
      { h with concViol := v }) h
  -- C16 under concurrency: of the actions of one entity and name accepted within the block, the server keeps one with the
  -- latest timestamp (the entity being still there)
  let h := match parseConc b.ev with
    | none => h
    | some tasks =>
      let accepted := tasks.filterMap fun (t : Nat × Option Req) =>
        match t.2 with
        | some (.action rid _ (some a)) => if (inboxOf t.1 b.ds).contains (.actionResp rid) then some a else none
        | _ => none
      let kept : List Action := (b.ghost.filterMap fun (g : Nat × List String) =>
        match parseAll out g.2 with | some (.vikjaState a) => some a | _ => none).flatten
      let hasVikja := b.ghost.any fun (g : Nat × List String) => match parseAll out g.2 with | some (.vikjaState _) => true | _ => false
      let older := accepted.filter fun a =>
        kept.any fun k => k.eid == a.eid && k.name == a.name && Spec.actionOlder k a
      if !hasVikja || older.isEmpty then h else
        { h with concViol := h.concViol.push ("C16", "older-action-kept",
            flatS s!"{" ".intercalate b.ev} :: accepted within the block: {reprStr accepted}; the server keeps {reprStr (kept.filter fun k => older.any fun a => a.eid == k.eid && a.name == k.name)}") }
  match parseConc b.ev with
  | none => { h with diff := some s!"event={evNo} kind=parse topic=conc :: cannot parse {b.ev}" }
  | some tasks =>
    let implOut := ((otoks.getD 1 "").splitOn ",")
    if implOut.any (·.startsWith "panic") then
      { h with diff := some s!"event={evNo} kind=outcome topic=conc :: a handler panicked {implOut}",
               concViol := h.concViol.push ("C08", "handler-panic", " ".intercalate b.ev) }
    else
    let tagged : List ((Nat × Option Req) × String) := tasks.zip implOut
    -- every serial order of the same requests
    let tries : List (List ((Nat × Option Req) × String) × Option (Server × List (IEv × List Delivery × Outcome)) × String) :=
      (perms3 tagged).map fun order =>
      match serialRun h.cfg h.srv b.ds (order.map Prod.fst) with
      | .error m => (order, none, m)
      | .ok (srv', steps) =>
        let ds := steps.flatMap fun (st : IEv × List Delivery × Outcome) => st.2.1
        let outsOk := (order.zip steps).all fun (x : ((Nat × Option Req) × String) × (IEv × List Delivery × Outcome)) => outcomeTok x.2.2.2 == x.1.2
        let ms := sortNat (srv'.sessions.map fun (x : Session) => x.id)
        if !outsOk then (order, none, "outcomes differ")
        else match diffDeliveries ds b.ds with
          | some c => (order, none, s!"conn {c}: serial model {reprStr (inboxOf c ds)} implementation {reprStr (inboxOf c b.ds)}")
          | none =>
            if ms != b.sessions then (order, none, s!"sessions {ms} vs {b.sessions}")
            else if srv'.gauge != b.gauge then (order, none, s!"gauge {srv'.gauge} vs {b.gauge}")
            else (order, some (srv', steps), "")
    -- of the orders that explain the deliveries, one that also explains the state afterwards is preferred
    let stateOk (srv' : Server) : Bool := b.ghost.isEmpty || (ghostDiff srv' b.ghost).isNone
    let explained := (tries.findSome? fun t => match t.2.1 with | some (srv', st) => if stateOk srv' then some (srv', st) else none | none => none)
      <|> (tries.findSome? fun t => t.2.1)
    -- two requests of the block write the same item (a component, an entity's action of one name): the writes are applied
    -- in one order and relayed outside the lock that orders them, so that the relays may reach a member in the other
    let itemOf (r : Option Req) : Option (Nat × Nat × String) := match r with
      | some (.compAdd _ _ tid eid _) | some (.compUpdate _ tid eid _) | some (.compDelete _ _ tid eid) => some (tid + 1, eid, "")
      | some (.action _ _ (some a)) => some (0, a.eid, a.name)
      | _ => none
    let items := tasks.filterMap fun (t : Nat × Option Req) => itemOf t.2
    let sameItem := items.eraseDups.length != items.length
    let fully := tries.any fun t => match t.2.1 with | some (srv', _) => stateOk srv' | none => false
    let byState : Option (Server × List (IEv × List Delivery × Outcome)) :=
      if !sameItem || fully || b.ghost.isEmpty then none else
      (perms3 tagged).findSome? fun order =>
        match serialRun h.cfg h.srv b.ds (order.map Prod.fst) with
        | .error _ => none
        | .ok (srv', steps) =>
          let outsOk := (order.zip steps).all fun (x : ((Nat × Option Req) × String) × (IEv × List Delivery × Outcome)) => outcomeTok x.2.2.2 == x.1.2
          let ms := sortNat (srv'.sessions.map fun (x : Session) => x.id)
          if outsOk && ms == b.sessions && srv'.gauge == b.gauge && (ghostDiff srv' b.ghost).isNone then some (srv', steps) else none
    -- C06 / C12 under concurrency: the state a newcomer is handed holds no component of an entity that is not in it (an
    -- entity leaves the session before its components are removed; whatever the newcomer is handed in between, it must
    -- not be a component that nothing will ever take back)
    let orphans : List String := b.ds.filterMap fun (d : Delivery) =>
      match d.2 with
      | .sessionState _ ents comps =>
        let bad := comps.filter fun (c : Comp) => !(ents.any fun (e : EntityView) => e.id == c.eid)
        if bad.isEmpty then none else some s!"connection {d.1} is handed the components {reprStr bad} and the entities {ents.map (·.id)}"
      | _ => none
    let h := if orphans.isEmpty then h else
      let d := flatS s!"{" ".intercalate b.ev} :: {orphans}"
      { h with concViol := ((h.concViol.push ("C06", "newcomer-handed-a-component-without-its-entity", d)).push
          ("C12", "newcomer-handed-a-component-without-its-entity", d)).push ("C01", "newcomer-handed-a-component-without-its-entity", d) }
    -- C05 under concurrency: a refused delete request removes nothing - an action or an asset instance whose request
    -- was answered with success within the block is in the module's state afterwards, unless a delete request or a
    -- departure of the block was not refused
    let refusedDeletes := tasks.filterMap fun (t : Nat × Option Req) =>
      match t.2 with
      | some (.entityDelete rid _ eid) => if (inboxOf t.1 b.ds).any (fun (o : Out) => match o with | .error r _ => r == rid | _ => false) then some eid else none
      | _ => none
    let onlyRefused := tasks.all fun (t : Nat × Option Req) =>
      match t.2 with
      | some (.entityDelete rid _ _) => (inboxOf t.1 b.ds).any (fun (o : Out) => match o with | .error r _ => r == rid | _ => false)
      | some (.join ..) | none => false
      | _ => true
    let held : List ((Nat × Nat) × List Nat) := b.ghost.filterMap fun (g : Nat × List String) =>
      match parseAll out g.2 with
      | some (.vikjaState a) => some ((g.1, 0), a.map (·.eid))
      | some (.odalState a) => some ((g.1, 1), a.map (·.eid))
      | _ => none
    let sidOf (c : Nat) : Nat := ((h.srv.locate c).map fun x => x.1.id).getD 0
    let lost := tasks.filterMap fun (t : Nat × Option Req) =>
      match t.2 with
      | some (.action rid _ (some a)) =>
        if refusedDeletes.contains a.eid && (inboxOf t.1 b.ds).contains (.actionResp rid) && !(held.any fun x => x.1 == (sidOf t.1, 0) && x.2.contains a.eid) then some s!"the action of entity {a.eid} (request {rid} of connection {t.1}, answered with success)" else none
      | some (.assetAdd rid _ _ eid) =>
        if refusedDeletes.contains eid && (inboxOf t.1 b.ds).any (fun (o : Out) => match o with | .assetAddResp r _ => r == rid | _ => false) && !(held.any fun x => x.1 == (sidOf t.1, 1) && x.2.contains eid) then some s!"the asset instance of entity {eid} (request {rid} of connection {t.1}, answered with success)" else none
      | _ => none
    let h := if onlyRefused && !lost.isEmpty then
      { h with concViol := h.concViol.push ("C05", "refused-delete-removed-an-attachment", flatS s!"{" ".intercalate b.ev} :: every delete request of the block was refused, and the module state no longer holds {lost}") }
      else h
    -- C12 under concurrency: a component is added at most once per (type, entity) - whatever else the block is judged to be
    let addsOk := tasks.filterMap fun (t : Nat × Option Req) =>
      match t.2 with
      | some (.compAdd rid _ tid eid _) => if (inboxOf t.1 b.ds).contains (.compAddResp rid) then some (tid, eid) else none
      | _ => none
    let h := if addsOk.eraseDups.length == addsOk.length then h else
      { h with concViol := h.concViol.push ("C12", "component-added-twice", flatS s!"{" ".intercalate b.ev} :: two requests of the block were both answered that they added the component (type, entity) {addsOk}") }
    match byState with
    | some (srv', steps) =>
      -- the state is that of a serial order, the relays are not: recorded (F26), the members of the sessions concerned
      -- are not followed any further (what they hold now depends on the order the relays reached them in)
      let detail := flatS s!"{" ".intercalate b.ev} :: the server's state afterwards is that of the requests handled one after the other in some order, what the members were sent is not: {"; ".intercalate (tries.map fun t => t.2.2)}"
      let touched := (tasks.filterMap fun (t : Nat × Option Req) => (h.srv.locate t.1).map fun x => x.1.parts.map (·.conn)).flatten.eraseDups
      let (_, h) := steps.foldl (fun (acc : Server × Hist) (st : IEv × List Delivery × Outcome) =>
        let (cur, h) := acc
        match toModelEvent cur st.1 with
        | .ok ev =>
          let nxt := (step h.cfg cur ev).1
          let is : IStep := ⟨st.1, st.2.1, st.2.2, sortNat (nxt.sessions.map fun (x : Session) => x.id), nxt.gauge, []⟩
          (nxt, { h with steps := h.steps.push is })
        | .error _ => (cur, h)) (h.srv, h)
      { h with srv := srv',
               vsteps := h.vsteps.push ⟨.conc (touched.map fun c => (c, some hangup)), [], .ok, b.sessions, b.gauge, []⟩,
               concViol := h.concViol.push ("C01", "concurrent-writers-relay-order", detail) }
    | none =>
    match explained with
    | some (srv', steps) =>
      -- continue as if the requests had been handled in that order
      -- the registry after each step is the model's (the implementation's is known for the end of the block only)
      let (_, h) := steps.foldl (fun (acc : Server × Hist) (st : IEv × List Delivery × Outcome) =>
        let (cur, h) := acc
        match toModelEvent cur st.1 with
        | .ok ev =>
          let nxt := (step h.cfg cur ev).1
          let is : IStep := ⟨st.1, st.2.1, st.2.2, sortNat (nxt.sessions.map fun (x : Session) => x.id), nxt.gauge, []⟩
          (nxt, { h with steps := h.steps.push is, vsteps := h.vsteps.push is })
        | .error _ => (cur, h)) (h.srv, h)
      { h with srv := srv' }
    | none =>
      let why := "; ".intercalate (tries.map fun t => s!"order {t.1.map fun (x : (Nat × Option Req) × String) => x.1.1}: {t.2.2}")
      -- no serial order explains the outcome.  That alone violates nothing: the properties ask, under concurrency, for
      -- unique ids, convergent views and a consistent registry at the next quiescent moment.  Ids are checked here, the
      -- views by the view monitor (which is fed the block as it is); the other monitors lose their reference picture.
      let answers := b.ds.map Prod.snd
      -- a session that ends within the block may be followed by another under the same number: the UUID tells them apart
      let pids := answers.filterMap fun o => match o with | .joinResp _ sid uuid pid => some (sid, uuid, pid) | _ => none
      let eids := answers.filterMap fun o => match o with | .entityAddResp _ e => some e | _ => none
      let aids := answers.filterMap fun o => match o with | .assetAddResp _ a => some a | _ => none
      let dup (l : List Nat) : Bool := l.eraseDups.length != l.length
      let dupP : Bool := pids.eraseDups.length != pids.length
      let viol := h.concViol
      -- C02 under concurrency: every accepted change of the block is relayed exactly once to every member of the sender's
      -- session that neither joins nor leaves within the block (no flag is set in these histories)
      let movers := tasks.filterMap fun (t : Nat × Option Req) =>
        match t.2 with | some (.join ..) => some t.1 | some (.unknown 4294967295) => some t.1 | _ => none
      let relayIssues : List String := if !h.cfg.flags.isEmpty then [] else tasks.flatMap fun (t : Nat × Option Req) =>
        match h.srv.locate t.1, t.2 with
        | some (s, _), some r =>
          let stable := (s.parts.map (·.conn)).filter fun c => c != t.1 && !movers.contains c
          let mine := inboxOf t.1 b.ds
          let isRelay : Option (Out → Bool) := match r with
            | .entityAdd rid .. =>
              (mine.findSome? fun o => match o with | .entityAddResp r' eid => if r' == rid then some eid else none | _ => none).map
                fun eid => fun (o : Out) => match o with | .entityAddBcast _ e => e.id == eid | _ => false
            | .entityDelete rid _ eid =>
              if mine.contains (.entityDeleteResp rid) then some fun (o : Out) => match o with | .entityDeleteBcast (some _) e => e == eid | _ => false else none
            | .custom ots [] _ => some fun (o : Out) => match o with | .customBcast o' _ _ => o' == ots | _ => false
            | .action rid ots (some _) =>
              if mine.contains (.actionResp rid) then some fun (o : Out) => match o with | .actionBcast o' _ => o' == ots | _ => false else none
            | .assetAdd rid .. =>
              (mine.findSome? fun o => match o with | .assetAddResp r' aid => if r' == rid then some aid else none | _ => none).map
                fun aid => fun (o : Out) => match o with | .assetAddBcast _ a => a.id == aid | _ => false
            | _ => none
          match isRelay with
          | none => []
          | some f => stable.filterMap fun c =>
              let n := ((inboxOf c b.ds).filter f).length
              if n == 1 then none else some s!"connection {c} received the relay of connection {t.1}'s {reqKind r} {n} times"
        | _, _ => []
      -- C03 under concurrency: once a connection has been answered its join, it is sent nothing from the session it left
      let otsOfReq (r : Req) : Option Nat := match r with
        | .custom ots _ _ => some ots | .entityAdd _ ots .. => some ots | .entityDelete _ ots _ => some ots
        | .action _ ots _ => some ots | .assetAdd _ ots .. => some ots | .compAdd _ ots .. => some ots
        | .compDelete _ ots .. => some ots | .compUpdate ots .. => some ots | .updatePose ots .. => some ots | _ => none
      let otsOfOut (o : Out) : Option Nat := match o with
        | .customBcast ots .. => some ots | .entityAddBcast ots _ => some ots | .entityDeleteBcast (some ots) _ => some ots
        | .actionBcast ots _ => some ots | .assetAddBcast ots _ => some ots | .compAddBcast ots _ => some ots
        | .compDeleteBcast ots .. => some ots | .compUpdateBcast ots _ => some ots | .poseBcast ots .. => some ots | _ => none
      let lateRelays : List String := tasks.flatMap fun (t : Nat × Option Req) =>
        match t.2.bind otsOfReq with
        | some ots =>
          match h.srv.locate t.1 with
          | some (sm, _) =>
            (b.ds.map Prod.fst).eraseDups.filterMap fun k =>
              if k == t.1 || movers.contains t.1 then none else
              let inbox := inboxOf k b.ds
              let after := (inbox.dropWhile fun (o : Out) => match o with | .joinResp .. => false | _ => true)
              match after with
              | .joinResp _ _ uuid _ :: rest =>
                if uuid != sm.uuid && rest.any (fun (o : Out) => otsOfOut o == some ots) then
                  some s!"connection {k}, after the answer to its join of session uuid {uuid}, is relayed request {ots} of connection {t.1}, a member of session uuid {sm.uuid}"
                else none
              | _ => none
          | none => []
        | _ => []
      -- C02 / C04 under concurrency: a join that is refused relays nothing - in particular not the requester's departure
      let refusedLeaves : List String := tasks.filterMap fun (t : Nat × Option Req) =>
        match t.2, h.srv.locate t.1 with
        | some (.join rid _ _), some (s, p) =>
          let mine := inboxOf t.1 b.ds
          let refused := mine.any (fun (o : Out) => match o with | .error r _ => r == rid | _ => false) &&
                         !mine.any (fun (o : Out) => match o with | .joinResp r _ _ _ => r == rid | _ => false)
          let told := b.ds.filter fun (d : Delivery) => d.2 == .leaveBcast p.pid && (s.parts.any fun q => q.conn == d.1)
          if refused && !told.isEmpty then
            some s!"connection {t.1} (participant {p.pid} of session {s.id}) is refused its join request {rid}, and connections {told.map Prod.fst} are told it left"
          else none
        | _, _ => none
      let viol := if refusedLeaves.isEmpty then viol else
        (viol.push ("C02", "refused-request-relayed", flatS s!"{" ".intercalate b.ev} :: {refusedLeaves}")).push
          ("C04", "refused-request-changed-state", flatS s!"{" ".intercalate b.ev} :: {refusedLeaves}")
      -- C13 under concurrency: an update is relayed to the subscribers of its type - to every one that stays subscribed,
      -- and to nobody that neither was nor becomes a subscriber within the block
      let subIssues : List String := tasks.flatMap fun (t : Nat × Option Req) =>
        match t.2, h.srv.locate t.1 with
        | some (.compUpdate ots tid eid _), some (s, p) =>
          if (s.findComp tid eid).isNone then [] else
          let got := (b.ds.filter fun (d : Delivery) => match d.2 with | .compUpdateBcast o c => o == ots && c.tid == tid && c.eid == eid | _ => false).map Prod.fst
          let subsBefore := (s.subscribers tid).filterMap fun pid => (s.findPart pid).map (·.conn)
          let touching := tasks.filterMap fun (u : Nat × Option Req) =>
            match u.2 with
            | some (.subscribe _ tid') => if tid' == tid then some u.1 else none
            | some (.unsubscribe _ tid') => if tid' == tid then some u.1 else none
            | _ => none
          let stable := subsBefore.filter fun c => c != p.conn && !movers.contains c && !touching.contains c
          let allowed := subsBefore ++ touching
          let missed := stable.filter fun c => !got.contains c
          let extra := got.filter fun c => !allowed.contains c
          let twice := got.eraseDups.length != got.length
          (if missed.isEmpty then [] else [s!"the update {ots} of component ({tid}, {eid}) did not reach the subscribers' connections {missed}"]) ++
          (if extra.isEmpty then [] else [s!"the update {ots} of component ({tid}, {eid}) reached connections {extra}, which are not subscribed to type {tid}"]) ++
          (if twice then [s!"the update {ots} of component ({tid}, {eid}) reached a connection twice: {got}"] else [])
        | _, _ => []
      -- ... and a connection that has been answered that it is unsubscribed is told about no further update of the type
      let afterUnsub : List String := tasks.flatMap fun (t : Nat × Option Req) =>
        match t.2 with
        | some (.unsubscribe rid tid) =>
          let inbox := inboxOf t.1 b.ds
          let tail := (inbox.dropWhile fun (o : Out) => o != .unsubscribeResp rid).drop 1
          let late := tail.filter fun (o : Out) => match o with | .compUpdateBcast _ c => c.tid == tid | _ => false
          if late.isEmpty then [] else [s!"connection {t.1} was told it is unsubscribed from type {tid} (request {rid}) and then received {reprStr late}"]
        | _ => []
      let subIssues := subIssues ++ afterUnsub
      let viol := if subIssues.isEmpty then viol else
        viol.push ("C13", "component-update-notify", flatS s!"{" ".intercalate b.ev} :: {subIssues}")
      let viol := if lateRelays.isEmpty then viol else
        viol.push ("C03", "relay-from-a-session-already-left", flatS s!"{" ".intercalate b.ev} :: {lateRelays}")
      let viol := if relayIssues.isEmpty then viol else
        viol.push ("C02", "relay-not-exactly-once", flatS s!"{" ".intercalate b.ev} :: {relayIssues}")
      let viol := if dupP then viol.push ("C10", "participant-id-issued-twice", flatS s!"{" ".intercalate b.ev} :: {pids}") else viol
      -- entity and asset ids are per session; a block that touches two sessions may legitimately repeat numbers
      let oneSession := (tasks.filterMap fun (t : Nat × Option Req) => (h.srv.locate t.1).map fun x => x.1.id).eraseDups.length ≤ 1
      let viol := if oneSession && dup eids then viol.push ("C10", "entity-id-issued-twice", flatS s!"{" ".intercalate b.ev} :: {eids}") else viol
      let viol := if oneSession && dup aids then viol.push ("C10", "asset-id-issued-twice", flatS s!"{" ".intercalate b.ev} :: {aids}") else viol
      { h with blind := true, concViol := viol, concOdd := h.concOdd + 1,
               vsteps := h.vsteps.push ⟨.conc tasks, b.ds, .ok, b.sessions, b.gauge, []⟩,
               diff := h.diff <|> none,
               note := some (flatS s!"event={evNo} no serial order explains {b.ev.take 3}: {why}") }
where flatS (s : String) : String := s.replace "\n" " "

def finishHist (h : Hist) : IO Unit := do
  match h.diff with
  | none => IO.println s!"R {h.idx} ok events={h.nEvents} deliveries={h.nDeliv}"
  | some d => IO.println s!"R {h.idx} diff {(d.replace "\n" " ")}"
  for v in Spec.runMonitors h.cfg h.steps.toList ++ Spec.runViews h.cfg h.vsteps.toList do
    IO.println s!"M {h.idx} {v.prop} {v.cause} event={v.event} :: {v.detail}"
    -- a view that diverged in a history with a concurrent block is also a failing input of the property that owns the
    -- part of the state concerned: who is in the session (C06), components (C12), what modules attach (C16)
    if h.concBlocks > 0 && v.prop == "C01" && v.cause == "view-diverged" then
      let part := ((v.detail.splitOn ": ").getD 1 "")
      let also : List String :=
        if part.startsWith "participants" then ["C06"]
        else if part.startsWith "entities" then ["C06", "C05"]
        else if part.startsWith "components" then ["C12"]
        else if part.startsWith "entity actions" || part.startsWith "asset instances" then ["C16"]
        else []
      for p in also do
        IO.println s!"M {h.idx} {p} view-diverged event={v.event} :: {v.detail}"
  for v in h.concViol do
    IO.println s!"M {h.idx} {v.1} {v.2.1} event=0 :: {v.2.2}"
  if h.concBlocks > 0 then IO.println s!"C {h.idx} blocks={h.concBlocks} unserializable={h.concOdd} registry={h.regChecked}{match h.note with | some n => " :: " ++ n | none => ""}"

/-- `STAT n l_1 .. l_{n-1} L | min max mean p95 last sig count=.. ids=..`: one completed measurement of the real
    `models.SignedLatency` with preset round latencies (the final round's end time is the wall clock, so its
    latency is read back from `last`, which must be the intended `L` up to scheduling jitter) -/
def checkStat (toks : List String) : Option String :=
  match toks.span (· != "|") with
  | (pre, _ :: post) =>
    match pre.map String.toNat?, post with
    | some n :: rest, mn :: mx :: mean :: p95 :: last :: sig :: cnt :: ids :: _ =>
      let nums := rest.filterMap id
      if nums.length != rest.length || nums.isEmpty then some "unparseable STAT line" else
      let presets := nums.dropLast
      let finalL := nums.getLast!
      match mn.toNat?, mx.toNat?, mean.toNat?, p95.toNat?, last.toNat? with
      | some mn, some mx, some mean, some p95, some last =>
        if sig != "ok" then some "signature-does-not-verify: the report is not signed by the server key over the returned data"
        else if cnt != s!"count={n}" || ids != s!"ids={n}" then some s!"round-count: {n} rounds run, report says {cnt} {ids}"
        else if presets.length + 1 != n then some "unparseable STAT line"
        else if last < finalL || last > finalL + 8000 then
          some s!"last-not-final-round: final round took about {finalL} us, report says last={last}"
        else
          let st := Hagall.Latency.stats (presets ++ [last]) last
          if st.min != mn then some s!"stats-min: latencies {presets ++ [last]} min {st.min}, report says {mn}"
          else if st.max != mx then some s!"stats-max: expected {st.max}, report says {mx}"
          else if st.mean != mean then some s!"stats-mean: expected {st.mean}, report says {mean}"
          else if st.p95 != p95 then some s!"stats-p95: expected {st.p95}, report says {p95}"
          else none
      | _, _, _, _, _ => some "negative or non-integer statistics in the report"
    | _, _ => some "unparseable STAT line"
  | _ => some "unparseable STAT line"

def parseTok (s : String) : Option Hagall.Auth.Tok :=
  match s.splitOn "," with
  | [w, alg, m, e, i, n, iss] =>
    let oi (x : String) : Option Int := if x == "-" then none else x.toInt?
    some { wellFormed := w == "1", alg, macOk := m == "1", exp := oi e, iat := oi i, nbf := oi n, issHDS := iss == "H" }
  | _ => none

/-- `AUTH route=.. secret=.. hdr=.. query=.. cookie=.. T0=.. T1=.. T2=.. | entered=.. status=..`: one request against
    the real auth wrappers; `Auth.admitted` on the reference facts must equal whether the protected handler ran -/
def checkAuth (toks : List String) : Option String :=
  let kv (k : String) : Option String :=
    toks.findSome? fun t => if t.startsWith (k ++ "=") then some (t.drop (k.length + 1)).toString else none
  let tokOf (i : String) : Option Hagall.Auth.Tok := (kv ("T" ++ i)).bind parseTok
  match kv "secret", kv "hdr", kv "query", kv "cookie", kv "entered" with
  | some sec, some hdr, some q, some ck, some ent =>
    let header : Option (Bool × Hagall.Auth.Tok) :=
      if hdr == "-" then none else (tokOf (hdr.drop 1).toString).map fun t => (hdr.startsWith "B", t)
    let query := if q == "-" then none else tokOf q
    let cookie := if ck == "-" then none else tokOf ck
    let expect := Hagall.Auth.admitted (sec == "1") ⟨header, query, cookie⟩
    let got := ent != "0"
    if ent != "0" && ent != "1" then some s!"handler-ran-more-than-once: entered={ent}"
    else if expect == got then none
    else if got then some "admitted-without-valid-token: the protected handler ran for a request the model rejects"
    else some "valid-token-rejected: the protected handler did not run for a request the model admits"
  | _, _, _, _, _ => some "unparseable AUTH line"

/-- `RTRIPLE hashOk=.. siglen=.. recid=.. recovers=.. accepted=.. forwarded=..`: one accepted receipt of the receipts
    harness; it must have reached the credit service as often as it was accepted when `Receipt.wellFormed`, never otherwise -/
def checkTriple (toks : List String) : Option (String × String) :=
  let kv (k : String) : Option Nat :=
    toks.findSome? fun t => if t.startsWith (k ++ "=") then (t.drop (k.length + 1)).toString.toNat? else none
  match kv "hashOk", kv "siglen", kv "recid", kv "recovers", kv "accepted", kv "forwarded" with
  | some h, some l, some r, some rc, some acc, some fw =>
    let t : Hagall.Receipt.Triple := { hashOk := h == 1, sigLen := l, recId := r, recovers := rc == 1 }
    let want := ((List.replicate acc t) |> Hagall.Receipt.forwards).length
    if fw == want then none
    else if fw > want && !Hagall.Receipt.wellFormed t then some ("invalid-receipt-forwarded", s!"the model forwards it {want} times, the credit service received it {fw} times")
    else if fw > want then some ("receipt-forwarded-twice", s!"accepted {acc} times, received {fw} times")
    else some ("valid-receipt-not-forwarded", s!"accepted {acc} times, received {fw} times")
  | _, _, _, _, _, _ => some ("unparseable", "unparseable RTRIPLE line")

partial def loop (stdin : IO.FS.Stream) (h : Option Hist) (b : Block) : IO Unit := do
  let line ← stdin.getLine
  if line.isEmpty then
    match h with
    | some h => finishHist h
    | none => pure ()
    return
  let toks := words (line.trimAscii.toString)
  match toks with
  | "HIST" :: _ =>
    if let some h := h then finishHist h
    let (idx, cfg) := parseHeader toks
    loop stdin (some { idx, cfg, header := line }) {}
  | "END" :: _ =>
    if let some h := h then finishHist h
    loop stdin none {}
  | "E" :: rest => loop stdin h { ev := rest }
  | "D" :: c :: rest =>
    match c.toNat?, parseAll out rest with
    | some c, some o => loop stdin h { b with ds := b.ds ++ [(c, o)] }
    | _, _ => loop stdin h { b with bad := b.bad ++ [" ".intercalate (c :: rest)] }
  | "S" :: rest =>
    -- S [n id.. g=K
    let gauge := (rest.findSome? fun t => if t.startsWith "g=" then (t.drop 2).toString.toInt? else none).getD 0
    let ids := (rest.filter fun t => !(t.startsWith "g=") && !(t.startsWith "[")).filterMap String.toNat?
    loop stdin h { b with sessions := ids, gauge }
  | "X" :: rest => loop stdin h { b with extra := b.extra ++ [" ".intercalate rest] }
  | "G" :: sid :: rest =>
    match sid.toNat? with
    | some sid => loop stdin h { b with ghost := b.ghost ++ [(sid, rest)] }
    | none => loop stdin h b
  | "Q" :: "members" :: rest =>
    let (ms, ss) := rest.span (· != "|")
    let nums (t : String) : List Nat := (t.splitOn ":").filterMap String.toNat?
    let members := ms.filterMap fun t => match nums t with | [c, s, f] => some (c, s, f == 1) | _ => none
    let counts := (ss.drop 2).filterMap fun t => match nums t with | [s, n] => some (s, n) | _ => none
    loop stdin h { b with quies := some (members, counts) }
  | "O" :: "stuck" :: _ =>
    -- the harness gave up on an event that did not return: a handler blocked for good (C08), by the locks if anything (C09)
    let h := h.map fun h =>
      let what := s!"event {h.nEvents} ({" ".intercalate b.ev}) did not return within the harness' patience: the handler is blocked for good"
      { h with nEvents := h.nEvents + 1, blind := true,
               diff := h.diff <|> some s!"event={h.nEvents} kind=stuck topic=handler :: {what}",
               concViol := (h.concViol.push ("C08", "request-never-completes", what)).push ("C09", "request-never-completes", what) }
    loop stdin h {}
  | "O" :: rest =>
    let h := h.map fun h => if b.ev.head? == some "conc" then processConc h b rest else processBlock h b (parseOutcome rest)
    loop stdin h {}
  | "STAT" :: rest =>
    match checkStat rest with
    | none => IO.println "T ok"
    | some d =>
      let cause := (d.splitOn ":").head!
      IO.println s!"M 0 C18 {cause} event=0 :: {d} :: STAT {" ".intercalate rest}"
    loop stdin h b
  | "RTRIPLE" :: rest =>
    match checkTriple rest with
    | none => IO.println "T ok"
    | some (cause, d) => IO.println s!"M 0 C19 {cause} event=0 :: {d} :: RTRIPLE {" ".intercalate rest}"
    loop stdin h b
  | "AUTH" :: rest =>
    match checkAuth rest with
    | none => IO.println "A ok"
    | some d =>
      let cause := (d.splitOn ":").head!
      IO.println s!"M 0 C15 {cause} event=0 :: {d} :: AUTH {" ".intercalate rest}"
    loop stdin h b
  | "STATERR" :: rest =>
    IO.println s!"M 0 C18 measurement-failed event=0 :: {" ".intercalate rest}"
    loop stdin h b
  | _ => loop stdin h b

def main (args : List String) : IO Unit := do
  if args == ["grid"] then Hagall.Grid.gridLoop (← IO.getStdin) {}
  else loop (← IO.getStdin) none {}
